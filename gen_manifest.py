#!/usr/bin/env python3
# Writes MANIFEST.json from the table below (kept next to DESIGN.md so the two stay in step).
import json, subprocess
checks = {
 "C01": ("every single-field definition (message x field number x base-type byte x size x byte order x data) is decided by the solver per profile message: rejected by validation or decoded without any panic of Go or of the reflection model; bounded whole runs of the entry points on short symbolic streams", "§5/C01"),
 "C02": ("single-field definitions: every profile message x listed field x compatible (base type, size) x both byte orders x all data bytes, decoded by the real record parser and compared by the solver with a reference decoder written in the harness; all other fields compared with the all-invalid constructor", "§5/C02"),
 "C03": ("all 256 file types in one symbolic run; one add step per (file type, message) from a symbolic container pre-state with the slot chosen by an oracle computed from the Go types", "§5/C03"),
 "C04": ("GF(2) lemmas on the real updateByte over all states/bytes/patterns; header verdicts of the four APIs over all header bytes; direct bursts on short frames", "§5/C04"),
 "C05": ("Encode on Files built through the public API with symbolic field values, output parsed by an independent grammar walker in the harness (header, definitions, records, sizes, CRCs, wire values) and the File's bookkeeping compared with the bytes written", "§5/C05"),
 "C06": ("the bytes Encode wrote (symbolic terms) are fed to the real Decode on the same path and the decoded File compared field by field with the original", "§5/C06"),
 "C07": ("messages produced by the real record parser from arbitrary accepted single-field definitions and data are stored in a File, encoded, integrity-checked, decoded, encoded and decoded again on one symbolic path; encodability, counts and the fixpoint are solver-decided", "§5/C07"),
 "C08": ("every entry point executed symbolically on model streams with write provenance (stores into objects that pre-exist the call); Decode from an arbitrary state of the package-level accumulators versus the fresh state; Encode twice under symbolic map iteration orders", "§5/C08"),
 "C10": ("streams generated from a FIT stream model with arbitrary field bytes, read through a chunking reader that records every request; Decode/CheckIntegrity/DecodeHeader/DecodeHeaderAndFileID/DecodeChained run on the same symbolic stream and compared", "§5/C10"),
 "C11": ("the model streams cut or faulted at every offset (case-split by the solver), all entry points; chain boundary with cut, fault and stray byte", "§5/C11"),
 "C12": ("step lemma over all 2^32 reference timestamps x 32 offsets x 256 header bytes, conversions over all 2^32 field values, short sequences through the real record parser", "§5/C12"),
 "C13": ("one record through the real decodeFileData loop from a state with 16 distinguishable definitions, header byte and record bytes symbolic", "§5/C13"),
 "C14": ("updateByte == bit-serial CRC-16/ARC step for all 2^24 (state, byte) pairs; streaming interface == fold of that step for <= 8 bytes and every split; residue rule from every state", "§5/C14"),
 "C15": ("table facts with field number (8 bit) and message number (16 bit) symbolic over the tables interpreted from the tree's init code; constructors executed from SSA", "§5/C15"),
 "C16": ("model streams (uncut and cut at every offset) decoded without options and with a symbolic option combination, results compared; counters compared with the generator's expectation; sortedness over symbolic keys and every map order", "§5/C16"),
 "C17": ("integer clauses and time bijection over all 2^32 values; Degrees exactness per magnitude class with the FP theory; degrees round trip for small magnitudes", "§5/C17"),
 "C18": ("the five expansions on messages whose every integer field is symbolic; accumulator step from an arbitrary state; two-file sequence", "§5/C18"),
 "C20": ("every generated type's real String method with the receiver symbolic over its full width against the constant table read from go/types", "§5/C20"),
}
na = {
 "C19": "fitgen: the property quantifies over workbook files and product-profile selections pushed through xlsx parsing, text generation, go/format, file I/O and a go build; none of it is a bounded integer computation the SSA encoder can reach, and there is no symbolic input short of a whole spreadsheet",
}
import sys
if len(sys.argv) > 1:
    pass
m = {
 "version": 1,
 "setup_cmd": "./setup.sh",
 "hooks": {
  "guard": "verif",
  "enable": "harness files carry //go:build verif and are injected into /repo's packages through go/packages Overlay (engine) and go test -overlay (native replay); nothing is committed to /repo for instrumentation",
  "baseline_off_cmd": "cd /repo && go test -vet=off -count=1 -timeout 25m ./...",
  "source_commits": [],
  "add_only": True,
 },
 "engines": [{"name": "gosym", "path": "engine", "serves_properties": sorted(checks), "kind_free_text": "path-wise symbolic executor for go/ssa (x/tools v0.29.0) writing SMT-LIB2 to z3 5.1.0 over a pipe; native replay of every witness with go test -overlay"}],
 "checks": [],
 "not_applicable": [{"property_id": k, "reason": v} for k, v in sorted(na.items()) if k not in checks],
 "notes": "Exit codes: 0 held within the stated bounds (KNOWN-FINDING lines allowed), 1 replay-confirmed violation, 2 inconclusive (unknown/timeout/unwinding/unsupported/vacuous/encoding mismatch) — never reported as success. Known findings: known_findings.json. Mutation self-test: ./bin/gosym selftest.",
}
checks["C09"] = ("reduced claim, see level text", "§5/C09")
# Properties whose thorough tier (./check Cxx thorough) has been run to the end
# on the unchanged tree with exit 0 ("register only bounds run clean"). For the
# others the registered thorough command is the quick tier, whose bounds are
# the ones stated in the evidence file.
thorough_clean = set(json.load(open("/verif/thorough_clean.json")))
for pid, (text, ref) in sorted(checks.items()):
    m["checks"].append({
     "property_id": pid,
     "quick_cmd": "./check %s quick" % pid,
     "thorough_cmd": "./check %s %s" % (pid, "thorough" if pid in thorough_clean else "quick"),
     "evidence_file": "evidence/%s.json" % pid,
     "replay_cmd_template": "./check %s --replay {path}" % pid,
     "engine": "gosym",
     "level_claimed": {"category": "other", "text": "Reduced claim (no interleavings are explored): the non-interference premise 'no entry point writes an object that exists before the call' is decided by symbolic execution with write provenance over all stream contents of the harness's stream model; race freedom and equality with sequential use follow from it by a disjoint-state argument that is stated, not machine-checked. Each explored path is additionally replayed natively with the two calls in separate goroutines under the Go race detector.", "design_ref": "DESIGN.md §5/C09"} if pid == "C09" else {"category": "model_checking", "text": "bounded symbolic model checking of the real code: " + text + ". The deciding step is the solver's verdict over all values within the bounds printed in the evidence file; outside them nothing is claimed.", "design_ref": "DESIGN.md " + ref},
     "level_note": "trusted: go/ssa lowering, z3 5.1.0, the reflect / binary.Write / fmt models of DESIGN.md §3; every sat answer is replayed natively before it is reported, every sampled path's model is replayed natively as translator validation",
     "technique": "SMT-based symbolic execution of go/ssa (bit-vector/FP encoding regenerated from /repo each run), solver verdict per path and assertion",
    })
json.dump(m, open("/verif/MANIFEST.json", "w"), indent=1)
print("claimed:", sorted(checks), "n/a:", [x["property_id"] for x in m["not_applicable"]])
