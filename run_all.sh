#!/bin/sh
# runs every claimed check once (tier = $1, default quick) and prints one line per check
cd "$(dirname "$0")" || exit 2
tier=${1:-quick}
mkdir -p work
for c in $(python3 -c "import json;print(' '.join(x['property_id'] for x in json.load(open('MANIFEST.json'))['checks']))"); do
  s=$(date +%s)
  ./check $c $tier > work/last_$c.log 2>&1
  rc=$?
  e=$(date +%s)
  echo "$c rc=$rc $((e-s))s $(grep -c KNOWN-FINDING work/last_$c.log) known $(grep -c VIOLATION work/last_$c.log) violations $(grep -c INCONCLUSIVE work/last_$c.log) inconclusive"
done
