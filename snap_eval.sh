#!/bin/sh
# ./snap_eval.sh <seed-id> [prop]: evaluates a seeded change WITHOUT touching
# /repo or /verif/work: snapshot of /verif under /tmp, scratch worktree of
# /repo with the patch. For use while another run occupies /repo; results of
# record come from eval_seed.sh.
id=$1; dir=/verif/seeded/$id
prop=${2:-$(python3 -c "import json;print(json.load(open('$dir/meta.json'))['property'])" 2>/dev/null)}
[ -z "$prop" ] && prop=$(echo $id | sed 's/S-\(C[0-9]*\)-.*/\1/')
snap=/tmp/vsnap-$id; wt=/tmp/vrepo-$id
rm -rf $snap; mkdir -p $snap
rsync -a --exclude .git --exclude work --exclude evidence ${SNAP_SRC:-/verif}/ $snap/
mkdir -p $snap/work $snap/evidence
git -C /repo worktree add -q --detach $wt HEAD || exit 2
git -C $wt apply $dir/patch.diff || exit 2
export GOFLAGS=-mod=mod GOPROXY=off GOSUMDB=off GOTOOLCHAIN=local
s=$(date +%s)
( cd $snap && VERIF_ROOT=$snap VERIF_REPO=$wt GOSYM_WORKERS=${GOSYM_WORKERS:-6} ./bin/gosym check $prop $(case $prop in C01|C02|C08|C11|C16) echo thorough;; *) echo quick;; esac) ) > /tmp/snapeval_$id.log 2>&1
rc=$?
e=$(date +%s)
echo "seed $id property $prop: rc=$rc ($((e-s))s) $(grep -c '^VIOLATION' /tmp/snapeval_$id.log) violation lines $(grep -c INCONCLUSIVE /tmp/snapeval_$id.log) inconclusive"
grep "assertion .* failed" /tmp/snapeval_$id.log | sed 's/.*assertion \([^ ]*\) failed.*/\1/' | sort | uniq -c | head
git -C /repo worktree remove --force $wt; rm -rf $snap
