#!/bin/sh
# ./confirm_seed.sh <seed-id>: confirms in a scratch worktree that the seeded
# change compiles, passes the existing tests, and that its demonstration
# fails with the change and passes without it.
id=$1; dir=/verif/seeded/$id; wt=/tmp/seedchk-$id
RACE=""; case "$id" in *C09*) RACE="-race";; esac
export GOFLAGS=-mod=mod GOPROXY=off GOSUMDB=off GOTOOLCHAIN=local
git -C /repo worktree add -q --detach $wt HEAD || exit 2
cd $wt
git apply $dir/patch.diff || { echo "patch does not apply"; cd /; git -C /repo worktree remove --force $wt; exit 2; }
go build ./... && go test -vet=off -count=1 ./... > $dir/confirm_suite.log 2>&1; suite=$?
if grep -q '^package dyncrc16' $dir/demo_test.go; then cp $dir/demo_test.go dyncrc16/zz_demo_test.go; PK=./dyncrc16; else cp $dir/demo_test.go zz_demo_test.go; PK=.; fi
go test $RACE -vet=off -count=1 -run . $PK > $dir/confirm_demo_with.log 2>&1; with=$?
git checkout -q -- . 
go test $RACE -vet=off -count=1 -run . $PK > $dir/confirm_demo_without.log 2>&1; without=$?
cd /; git -C /repo worktree remove --force $wt
echo "$id: suite_with_change=$suite demo_with_change=$with (want !=0) demo_without_change=$without (want 0)"
