package main

// Hash-consed SMT terms over Bool, BitVec(w) and FloatingPoint(32|64), with
// constant folding, a small interval simplifier, an evaluator (used to follow
// the solver's current model without asking the solver at every branch) and an
// SMT-LIB2 printer.

import (
	"fmt"
	"math"
	"math/big"
	"math/bits"
	"strings"
)

type SortKind uint8

const (
	KBool SortKind = iota
	KBV
	KFP
)

type Sort struct {
	K SortKind
	W int // BV width, or 32/64 for FP
}

var (
	SBool = Sort{KBool, 1}
	SFP32 = Sort{KFP, 32}
	SFP64 = Sort{KFP, 64}
)

func BV(w int) Sort { return Sort{KBV, w} }

func (s Sort) String() string {
	switch s.K {
	case KBool:
		return "Bool"
	case KBV:
		return fmt.Sprintf("(_ BitVec %d)", s.W)
	default:
		if s.W == 32 {
			return "(_ FloatingPoint 8 24)"
		}
		return "(_ FloatingPoint 11 53)"
	}
}

type Op uint8

const (
	OpConst Op = iota
	OpVar
	OpNot
	OpAnd
	OpOr
	OpIte
	OpEq
	OpAdd
	OpSub
	OpMul
	OpUDiv
	OpURem
	OpSDiv
	OpSRem
	OpBAnd
	OpBOr
	OpBXor
	OpBNot
	OpNeg
	OpShl
	OpLShr
	OpAShr
	OpUlt
	OpUle
	OpSlt
	OpSle
	OpExtract // n = hi<<8|lo
	OpZext    // to sort.W
	OpSext
	OpConcat
	OpFAdd
	OpFSub
	OpFMul
	OpFDiv
	OpFNeg
	OpFLt
	OpFLe
	OpFEq      // IEEE equality (NaN != NaN)
	OpFFromBV  // reinterpret bits
	OpFFromS   // signed int -> fp (RNE)
	OpFFromU   // unsigned int -> fp (RNE)
	OpFToS     // fp -> signed int of sort.W, RTZ
	OpFToU     // fp -> unsigned int, RTZ
	OpFConv    // fp -> fp of other width (RNE)
	OpFIsNaN   // Bool
	OpUF       // uninterpreted function: name, args a (b)
)

type Term struct {
	op      Op
	sort    Sort
	a, b, c *Term
	n       int
	cv      uint64 // constant value (masked); bool 0/1; FP: IEEE bits
	name    string // var / UF name
	id      int
	lo, hi  uint64 // unsigned range for BV terms (inclusive)
	// evaluation memo
	evEpoch int
	evVal   uint64
}

type termKey struct {
	op      Op
	sort    Sort
	a, b, c int
	n       int
	cv      uint64
	name    string
}

type TermStore struct {
	tab   map[termKey]*Term
	next  int
	vars  []*Term
	epoch int
	model map[*Term]uint64
	ufs   map[string]Sort
	ufArg map[string][]Sort
	varset map[*Term]bool
}

var TS = &TermStore{tab: map[termKey]*Term{}, next: 1, ufs: map[string]Sort{}, ufArg: map[string][]Sort{}, varset: map[*Term]bool{}}

func tid(t *Term) int {
	if t == nil {
		return 0
	}
	return t.id
}

func mask(w int) uint64 {
	if w >= 64 {
		return ^uint64(0)
	}
	return (uint64(1) << uint(w)) - 1
}

func (ts *TermStore) mk(op Op, s Sort, a, b, c *Term, n int, cv uint64, name string) *Term {
	k := termKey{op, s, tid(a), tid(b), tid(c), n, cv, name}
	if t, ok := ts.tab[k]; ok {
		return t
	}
	t := &Term{op: op, sort: s, a: a, b: b, c: c, n: n, cv: cv, name: name, id: ts.next}
	ts.next++
	ts.tab[k] = t
	if s.K == KBV {
		t.lo, t.hi = 0, mask(s.W)
		ts.computeRange(t)
	}
	return t
}

func Const(s Sort, v uint64) *Term {
	if s.K == KBV {
		v &= mask(s.W)
	} else if s.K == KBool {
		v &= 1
	} else if s.W == 32 {
		v &= 0xFFFFFFFF
	}
	return TS.mk(OpConst, s, nil, nil, nil, 0, v, "")
}

func BVConst(w int, v uint64) *Term { return Const(BV(w), v) }

var (
	True  = Const(SBool, 1)
	False = Const(SBool, 0)
)

func Bool(b bool) *Term {
	if b {
		return True
	}
	return False
}

func NewVar(name string, s Sort) *Term {
	t := TS.mk(OpVar, s, nil, nil, nil, 0, 0, name)
	if !TS.varset[t] {
		TS.varset[t] = true
		TS.vars = append(TS.vars, t)
	}
	return t
}

// NewVarRange creates a BV var with a declared unsigned range; the caller must
// also assert the range in the path condition.
func NewVarRange(name string, s Sort, lo, hi uint64) *Term {
	t := NewVar(name, s)
	t.lo, t.hi = lo, hi
	return t
}

func (t *Term) IsConst() bool { return t.op == OpConst }
func (t *Term) IsTrue() bool  { return t == True }
func (t *Term) IsFalse() bool { return t == False }

func sx(v uint64, w int) int64 {
	if w >= 64 {
		return int64(v)
	}
	sh := uint(64 - w)
	return int64(v<<sh) >> sh
}

// ---------------------------------------------------------------- ranges

func (ts *TermStore) computeRange(t *Term) {
	w := t.sort.W
	m := mask(w)
	switch t.op {
	case OpConst:
		t.lo, t.hi = t.cv, t.cv
	case OpZext:
		t.lo, t.hi = t.a.lo, t.a.hi
	case OpSext:
		aw := t.a.sort.W
		if t.a.hi < uint64(1)<<uint(aw-1) {
			t.lo, t.hi = t.a.lo, t.a.hi
		}
	case OpExtract:
		hi, lo := t.n>>8, t.n&0xff
		if lo == 0 {
			wm := mask(hi + 1)
			if t.a.hi <= wm {
				t.lo, t.hi = t.a.lo, t.a.hi
			}
		}
	case OpBAnd:
		h := t.a.hi
		if t.b.hi < h {
			h = t.b.hi
		}
		t.lo, t.hi = 0, h
	case OpBOr, OpBXor:
		// result < 2^(bits of max)
		mx := t.a.hi | t.b.hi
		n := bits.Len64(mx)
		t.lo, t.hi = 0, mask(n)&m
		if t.op == OpBOr {
			l := t.a.lo
			if t.b.lo > l {
				l = t.b.lo
			}
			t.lo = l
		}
	case OpLShr:
		if t.b.IsConst() {
			s := t.b.cv
			if s >= uint64(w) {
				t.lo, t.hi = 0, 0
			} else {
				t.lo, t.hi = t.a.lo>>s, t.a.hi>>s
			}
		} else {
			t.lo, t.hi = 0, t.a.hi
		}
	case OpShl:
		if t.b.IsConst() && t.b.cv < uint64(w) {
			s := t.b.cv
			if bits.Len64(t.a.hi)+int(s) <= w {
				t.lo, t.hi = t.a.lo<<s, t.a.hi<<s
			}
		}
	case OpAdd:
		hi, c := bits.Add64(t.a.hi, t.b.hi, 0)
		if c == 0 && hi <= m {
			t.lo, t.hi = t.a.lo+t.b.lo, hi
		} else if t.b.IsConst() && w <= 64 {
			// x + c where c is "negative": x - k; if x.lo >= k no wrap.
			k := (-t.b.cv) & m
			if t.a.lo >= k {
				t.lo, t.hi = t.a.lo-k, t.a.hi-k
			}
		}
	case OpSub:
		if t.a.lo >= t.b.hi {
			t.lo, t.hi = t.a.lo-t.b.hi, t.a.hi-t.b.lo
		}
	case OpMul:
		h, l := bits.Mul64(t.a.hi, t.b.hi)
		if h == 0 && l <= m {
			t.lo, t.hi = t.a.lo*t.b.lo, l
		}
	case OpUDiv:
		if t.b.lo > 0 {
			t.lo, t.hi = t.a.lo/t.b.hi, t.a.hi/t.b.lo
		}
	case OpURem:
		if t.b.hi > 0 {
			t.lo, t.hi = 0, t.b.hi-1
			if t.a.hi < t.hi {
				t.hi = t.a.hi
			}
		}
	case OpIte:
		t.lo, t.hi = t.b.lo, t.b.hi
		if t.c.lo < t.lo {
			t.lo = t.c.lo
		}
		if t.c.hi > t.hi {
			t.hi = t.c.hi
		}
	case OpConcat:
		bw := t.b.sort.W
		if bw < 64 {
			t.lo = t.a.lo<<uint(bw) | 0
			t.hi = t.a.hi<<uint(bw) | mask(bw)
			if t.a.lo == t.a.hi {
				t.lo |= t.b.lo
				t.hi = t.a.hi<<uint(bw) | t.b.hi
			}
		}
	}
	if t.lo > t.hi {
		t.lo, t.hi = 0, m
	}
}

// signed range of a BV term, if derivable: returns ok=false when unknown.
func srange(t *Term) (lo, hi int64, ok bool) {
	w := t.sort.W
	half := uint64(1) << uint(w-1)
	if t.hi < half {
		return int64(t.lo), int64(t.hi), true
	}
	if t.lo >= half {
		return sx(t.lo, w), sx(t.hi, w), true
	}
	switch t.op {
	case OpSext:
		return srange(t.a)
	case OpSub:
		al, ah, ok1 := srange(t.a)
		bl, bh, ok2 := srange(t.b)
		if ok1 && ok2 {
			lo := new(big.Int).Sub(big.NewInt(al), big.NewInt(bh))
			hi := new(big.Int).Sub(big.NewInt(ah), big.NewInt(bl))
			return fitS(lo, hi, w)
		}
	case OpAdd:
		al, ah, ok1 := srange(t.a)
		bl, bh, ok2 := srange(t.b)
		if ok1 && ok2 {
			lo := new(big.Int).Add(big.NewInt(al), big.NewInt(bl))
			hi := new(big.Int).Add(big.NewInt(ah), big.NewInt(bh))
			return fitS(lo, hi, w)
		}
	case OpMul:
		al, ah, ok1 := srange(t.a)
		bl, bh, ok2 := srange(t.b)
		if ok1 && ok2 {
			c := []*big.Int{
				new(big.Int).Mul(big.NewInt(al), big.NewInt(bl)),
				new(big.Int).Mul(big.NewInt(al), big.NewInt(bh)),
				new(big.Int).Mul(big.NewInt(ah), big.NewInt(bl)),
				new(big.Int).Mul(big.NewInt(ah), big.NewInt(bh)),
			}
			lo, hi := c[0], c[0]
			for _, x := range c[1:] {
				if x.Cmp(lo) < 0 {
					lo = x
				}
				if x.Cmp(hi) > 0 {
					hi = x
				}
			}
			return fitS(lo, hi, w)
		}
	case OpNeg:
		al, ah, ok1 := srange(t.a)
		if ok1 && al > math.MinInt64 {
			lo, hi := big.NewInt(-ah), big.NewInt(-al)
			return fitS(lo, hi, w)
		}
	case OpIte:
		bl, bh, ok1 := srange(t.b)
		cl, ch, ok2 := srange(t.c)
		if ok1 && ok2 {
			if cl < bl {
				bl = cl
			}
			if ch > bh {
				bh = ch
			}
			return bl, bh, true
		}
	}
	return 0, 0, false
}

func fitS(lo, hi *big.Int, w int) (int64, int64, bool) {
	min := new(big.Int).Neg(new(big.Int).Lsh(big.NewInt(1), uint(w-1)))
	max := new(big.Int).Sub(new(big.Int).Lsh(big.NewInt(1), uint(w-1)), big.NewInt(1))
	if lo.Cmp(min) < 0 || hi.Cmp(max) > 0 {
		return 0, 0, false
	}
	return lo.Int64(), hi.Int64(), true
}

// ---------------------------------------------------------------- builders

func Not(a *Term) *Term {
	if a.IsConst() {
		return Bool(a.cv == 0)
	}
	if a.op == OpNot {
		return a.a
	}
	return TS.mk(OpNot, SBool, a, nil, nil, 0, 0, "")
}

func And(a, b *Term) *Term {
	if a.IsFalse() || b.IsFalse() {
		return False
	}
	if a.IsTrue() {
		return b
	}
	if b.IsTrue() {
		return a
	}
	if a == b {
		return a
	}
	if a.id > b.id {
		a, b = b, a
	}
	return TS.mk(OpAnd, SBool, a, b, nil, 0, 0, "")
}

func Or(a, b *Term) *Term {
	if a.IsTrue() || b.IsTrue() {
		return True
	}
	if a.IsFalse() {
		return b
	}
	if b.IsFalse() {
		return a
	}
	if a == b {
		return a
	}
	if a.id > b.id {
		a, b = b, a
	}
	return TS.mk(OpOr, SBool, a, b, nil, 0, 0, "")
}

func Implies(a, b *Term) *Term { return Or(Not(a), b) }

func Ite(c, a, b *Term) *Term {
	if c.IsTrue() {
		return a
	}
	if c.IsFalse() {
		return b
	}
	if a == b {
		return a
	}
	if a.sort != b.sort {
		panic(fmt.Sprintf("ite sort mismatch %v %v", a.sort, b.sort))
	}
	if a.sort.K == KBool {
		if a.IsTrue() && b.IsFalse() {
			return c
		}
		if a.IsFalse() && b.IsTrue() {
			return Not(c)
		}
		if a.IsTrue() {
			return Or(c, b)
		}
		if a.IsFalse() {
			return And(Not(c), b)
		}
		if b.IsTrue() {
			return Or(Not(c), a)
		}
		if b.IsFalse() {
			return And(c, a)
		}
	}
	// ite(c, x, ite(c, y, z)) -> ite(c, x, z)
	if b.op == OpIte && b.a == c {
		return Ite(c, a, b.c)
	}
	if a.op == OpIte && a.a == c {
		return Ite(c, a.b, b)
	}
	return TS.mk(OpIte, a.sort, c, a, b, 0, 0, "")
}

func Eq(a, b *Term) *Term {
	if a.sort != b.sort {
		panic(fmt.Sprintf("eq sort mismatch %v %v", a.sort, b.sort))
	}
	if a == b {
		if a.sort.K != KFP {
			return True
		}
	}
	if a.IsConst() && b.IsConst() {
		if a.sort.K == KFP {
			return Bool(a.cv == b.cv || (fpIsNaN(a) && fpIsNaN(b)))
		}
		return Bool(a.cv == b.cv)
	}
	if a.sort.K == KBool {
		if a.IsConst() {
			a, b = b, a
		}
		if b.IsTrue() {
			return a
		}
		if b.IsFalse() {
			return Not(a)
		}
	}
	if a.sort.K == KBV {
		if a.hi < b.lo || b.hi < a.lo {
			return False
		}
		if a.IsConst() {
			a, b = b, a
		}
		if b.IsConst() {
			// ite(c, k1, k2) == k
			if a.op == OpIte && a.b.IsConst() && a.c.IsConst() {
				return Ite(a.a, Eq(a.b, b), Eq(a.c, b))
			}
			// zext(x) == k
			if a.op == OpZext {
				if b.cv > mask(a.a.sort.W) {
					return False
				}
				return Eq(a.a, Const(a.a.sort, b.cv))
			}
			// (x + k1) == k  -> x == k-k1
			if a.op == OpAdd && a.b.IsConst() {
				return Eq(a.a, Const(a.sort, b.cv-a.b.cv))
			}
		}
		if a.op == OpZext && b.op == OpZext && a.a.sort == b.a.sort {
			return Eq(a.a, b.a)
		}
	}
	if a.id > b.id {
		a, b = b, a
	}
	return TS.mk(OpEq, SBool, a, b, nil, 0, 0, "")
}

func Ne(a, b *Term) *Term { return Not(Eq(a, b)) }

func bin(op Op, a, b *Term) *Term {
	if a.sort != b.sort {
		panic(fmt.Sprintf("binop %d sort mismatch %v %v", op, a.sort, b.sort))
	}
	return TS.mk(op, a.sort, a, b, nil, 0, 0, "")
}

func Add(a, b *Term) *Term {
	w := a.sort.W
	if a.IsConst() && b.IsConst() {
		return BVConst(w, a.cv+b.cv)
	}
	if a.IsConst() {
		a, b = b, a
	}
	if b.IsConst() {
		if b.cv == 0 {
			return a
		}
		if a.op == OpAdd && a.b.IsConst() {
			return Add(a.a, BVConst(w, a.b.cv+b.cv))
		}
		if a.op == OpSub && a.a.IsConst() { // (k1 - x) + k
			return Sub(BVConst(w, a.a.cv+b.cv), a.b)
		}
	}
	// (x - y) + y -> x
	if a.op == OpSub && a.b == b {
		return a.a
	}
	if b.op == OpSub && b.b == a {
		return b.a
	}
	if !b.IsConst() && a.id > b.id {
		a, b = b, a
	}
	return bin(OpAdd, a, b)
}

func Sub(a, b *Term) *Term {
	w := a.sort.W
	if a == b {
		return BVConst(w, 0)
	}
	if b.IsConst() {
		return Add(a, BVConst(w, -b.cv))
	}
	// (x + k) - x -> k ; (x+k1) - (x+k2) -> k1-k2
	ab, ak := splitAddConst(a)
	bb, bk := splitAddConst(b)
	if ab == bb {
		return BVConst(w, ak-bk)
	}
	if ak != 0 || bk != 0 {
		if ab != nil && bb != nil {
			return Add(Sub(ab, bb), BVConst(w, ak-bk))
		}
	}
	if a.op == OpAdd {
		if a.a == b {
			return a.b
		}
		if a.b == b {
			return a.a
		}
	}
	return bin(OpSub, a, b)
}

func splitAddConst(t *Term) (*Term, uint64) {
	if t.IsConst() {
		return nil, t.cv
	}
	if t.op == OpAdd && t.b.IsConst() {
		return t.a, t.b.cv
	}
	return t, 0
}

func Mul(a, b *Term) *Term {
	w := a.sort.W
	if a.IsConst() && b.IsConst() {
		return BVConst(w, a.cv*b.cv)
	}
	if a.IsConst() {
		a, b = b, a
	}
	if b.IsConst() {
		if b.cv == 0 {
			return b
		}
		if b.cv == 1 {
			return a
		}
	}
	return bin(OpMul, a, b)
}

// mulNoWrapS reports whether t = x*c is a multiplication that provably does
// not overflow in signed arithmetic.
func mulNoWrapS(t *Term) bool {
	if t.op != OpMul {
		return false
	}
	_, _, ok := srange(t)
	if !ok {
		return false
	}
	// srange(OpMul) only succeeds through fitS when hi<half shortcut fails;
	// recheck directly on operands.
	al, ah, ok1 := srange(t.a)
	bl, bh, ok2 := srange(t.b)
	if !ok1 || !ok2 {
		return false
	}
	for _, x := range [][2]int64{{al, bl}, {al, bh}, {ah, bl}, {ah, bh}} {
		p := new(big.Int).Mul(big.NewInt(x[0]), big.NewInt(x[1]))
		if _, _, ok := fitS(p, p, t.sort.W); !ok {
			return false
		}
	}
	return true
}

func mulNoWrapU(t *Term) bool {
	if t.op != OpMul {
		return false
	}
	h, l := bits.Mul64(t.a.hi, t.b.hi)
	return h == 0 && l <= mask(t.sort.W)
}

func UDiv(a, b *Term) *Term {
	w := a.sort.W
	if a.IsConst() && b.IsConst() {
		if b.cv == 0 {
			return BVConst(w, mask(w))
		}
		return BVConst(w, a.cv/b.cv)
	}
	if b.IsConst() && b.cv == 1 {
		return a
	}
	if b.IsConst() && a.op == OpMul && a.b == b && mulNoWrapU(a) {
		return a.a
	}
	if b.IsConst() && b.cv != 0 && a.hi < b.cv {
		return BVConst(w, 0)
	}
	return bin(OpUDiv, a, b)
}

func URem(a, b *Term) *Term {
	w := a.sort.W
	if a.IsConst() && b.IsConst() {
		if b.cv == 0 {
			return a
		}
		return BVConst(w, a.cv%b.cv)
	}
	if b.IsConst() && a.op == OpMul && a.b == b && mulNoWrapU(a) {
		return BVConst(w, 0)
	}
	if b.IsConst() && b.cv != 0 && a.hi < b.cv {
		return a
	}
	return bin(OpURem, a, b)
}

func SDiv(a, b *Term) *Term {
	w := a.sort.W
	if a.IsConst() && b.IsConst() {
		if b.cv == 0 {
			if sx(a.cv, w) < 0 {
				return BVConst(w, 1)
			}
			return BVConst(w, mask(w))
		}
		x, y := sx(a.cv, w), sx(b.cv, w)
		if y == -1 {
			return BVConst(w, uint64(-x))
		}
		return BVConst(w, uint64(x/y))
	}
	if b.IsConst() && b.cv == 1 {
		return a
	}
	if b.IsConst() && a.op == OpMul && a.b == b && mulNoWrapS(a) {
		return a.a
	}
	// both non-negative: same as udiv
	half := uint64(1) << uint(w-1)
	if a.hi < half && b.hi < half {
		return UDiv(a, b)
	}
	return bin(OpSDiv, a, b)
}

func SRem(a, b *Term) *Term {
	w := a.sort.W
	if a.IsConst() && b.IsConst() {
		if b.cv == 0 {
			return a
		}
		x, y := sx(a.cv, w), sx(b.cv, w)
		if y == -1 {
			return BVConst(w, 0)
		}
		return BVConst(w, uint64(x%y))
	}
	if b.IsConst() && a.op == OpMul && a.b == b && mulNoWrapS(a) {
		return BVConst(w, 0)
	}
	half := uint64(1) << uint(w-1)
	if a.hi < half && b.hi < half {
		return URem(a, b)
	}
	return bin(OpSRem, a, b)
}

func BAnd(a, b *Term) *Term {
	w := a.sort.W
	if a.IsConst() && b.IsConst() {
		return BVConst(w, a.cv&b.cv)
	}
	if a.IsConst() {
		a, b = b, a
	}
	if b.IsConst() {
		if b.cv == 0 {
			return b
		}
		if b.cv == mask(w) {
			return a
		}
		// mask covers whole range of a
		if b.cv&(b.cv+1) == 0 && a.hi <= b.cv {
			return a
		}
		if a.op == OpBAnd && a.b.IsConst() {
			return BAnd(a.a, BVConst(w, a.b.cv&b.cv))
		}
		// zext(x) & k where k < 2^xw: zext(x & k)
		if a.op == OpZext && b.cv <= mask(a.a.sort.W) {
			return Zext(BAnd(a.a, Const(a.a.sort, b.cv)), w)
		}
	}
	if a == b {
		return a
	}
	if !b.IsConst() && a.id > b.id {
		a, b = b, a
	}
	return bin(OpBAnd, a, b)
}

func BOr(a, b *Term) *Term {
	w := a.sort.W
	if a.IsConst() && b.IsConst() {
		return BVConst(w, a.cv|b.cv)
	}
	if a.IsConst() {
		a, b = b, a
	}
	if b.IsConst() {
		if b.cv == 0 {
			return a
		}
		if b.cv == mask(w) {
			return b
		}
	}
	if a == b {
		return a
	}
	// zext(x) | (zext(y) << k) with k >= width(x), total == w: concat
	if c := tryConcat(a, b); c != nil {
		return c
	}
	if c := tryConcat(b, a); c != nil {
		return c
	}
	if !b.IsConst() && a.id > b.id {
		a, b = b, a
	}
	return bin(OpBOr, a, b)
}

// tryConcat recognises lo | (hi << k) where lo < 2^k.
func tryConcat(lo, hi *Term) *Term {
	if hi.op != OpShl || !hi.b.IsConst() {
		return nil
	}
	k := int(hi.b.cv)
	w := lo.sort.W
	if k <= 0 || k >= w {
		return nil
	}
	if lo.hi > mask(k) {
		return nil
	}
	// hi.a must fit in w-k bits or be truncated anyway by shl
	hiPart := Extract(hi.a, w-k-1, 0)
	loPart := Extract(lo, k-1, 0)
	return Concat(hiPart, loPart)
}

func BXor(a, b *Term) *Term {
	w := a.sort.W
	if a.IsConst() && b.IsConst() {
		return BVConst(w, a.cv^b.cv)
	}
	if a.IsConst() {
		a, b = b, a
	}
	if b.IsConst() && b.cv == 0 {
		return a
	}
	if a == b {
		return BVConst(w, 0)
	}
	if b.IsConst() && b.cv == mask(w) {
		return BNot(a)
	}
	if !b.IsConst() && a.id > b.id {
		a, b = b, a
	}
	return bin(OpBXor, a, b)
}

func BNot(a *Term) *Term {
	if a.IsConst() {
		return BVConst(a.sort.W, ^a.cv)
	}
	if a.op == OpBNot {
		return a.a
	}
	return TS.mk(OpBNot, a.sort, a, nil, nil, 0, 0, "")
}

func Neg(a *Term) *Term {
	if a.IsConst() {
		return BVConst(a.sort.W, -a.cv)
	}
	return TS.mk(OpNeg, a.sort, a, nil, nil, 0, 0, "")
}

// shifts: b has the same sort as a (caller normalises the count).
func Shl(a, b *Term) *Term {
	w := a.sort.W
	if b.IsConst() {
		if b.cv == 0 {
			return a
		}
		if b.cv >= uint64(w) {
			return BVConst(w, 0)
		}
		if a.IsConst() {
			return BVConst(w, a.cv<<b.cv)
		}
	}
	return bin(OpShl, a, b)
}

func LShr(a, b *Term) *Term {
	w := a.sort.W
	if b.IsConst() {
		if b.cv == 0 {
			return a
		}
		if b.cv >= uint64(w) {
			return BVConst(w, 0)
		}
		if a.IsConst() {
			return BVConst(w, a.cv>>b.cv)
		}
		if a.hi>>b.cv == 0 {
			return BVConst(w, 0)
		}
		// concat(h,l) >> |l|  -> zext(h)
		if a.op == OpConcat && int(b.cv) == a.b.sort.W {
			return Zext(a.a, w)
		}
	}
	return bin(OpLShr, a, b)
}

func AShr(a, b *Term) *Term {
	w := a.sort.W
	if a.IsConst() && b.IsConst() {
		s := b.cv
		if s >= uint64(w) {
			s = uint64(w - 1)
		}
		return BVConst(w, uint64(sx(a.cv, w)>>s))
	}
	if b.IsConst() && b.cv == 0 {
		return a
	}
	if a.hi < uint64(1)<<uint(w-1) {
		return LShr(a, b)
	}
	return bin(OpAShr, a, b)
}

func Ult(a, b *Term) *Term {
	if a.sort != b.sort {
		panic("ult sort mismatch")
	}
	if a.hi < b.lo {
		return True
	}
	if a.lo >= b.hi {
		return False
	}
	if a == b {
		return False
	}
	if a.op == OpZext && b.op == OpZext && a.a.sort == b.a.sort {
		return Ult(a.a, b.a)
	}
	if a.op == OpZext && b.IsConst() && b.cv <= mask(a.a.sort.W) {
		return Ult(a.a, Const(a.a.sort, b.cv))
	}
	if b.op == OpZext && a.IsConst() && a.cv <= mask(b.a.sort.W) {
		return Ult(Const(b.a.sort, a.cv), b.a)
	}
	return TS.mk(OpUlt, SBool, a, b, nil, 0, 0, "")
}

func Ule(a, b *Term) *Term { return Not(Ult(b, a)) }

func Slt(a, b *Term) *Term {
	if a.sort != b.sort {
		panic("slt sort mismatch")
	}
	if a == b {
		return False
	}
	w := a.sort.W
	half := uint64(1) << uint(w-1)
	if a.hi < half && b.hi < half {
		return Ult(a, b)
	}
	if a.lo >= half && b.lo >= half {
		return Ult(a, b)
	}
	al, ah, ok1 := srange(a)
	bl, bh, ok2 := srange(b)
	if ok1 && ok2 {
		if ah < bl {
			return True
		}
		if al >= bh {
			return False
		}
	}
	if a.op == OpSext && b.op == OpSext && a.a.sort == b.a.sort {
		return Slt(a.a, b.a)
	}
	return TS.mk(OpSlt, SBool, a, b, nil, 0, 0, "")
}

func Sle(a, b *Term) *Term { return Not(Slt(b, a)) }

func Extract(a *Term, hi, lo int) *Term {
	w := hi - lo + 1
	if lo == 0 && w == a.sort.W {
		return a
	}
	if a.IsConst() {
		return BVConst(w, a.cv>>uint(lo))
	}
	switch a.op {
	case OpZext:
		aw := a.a.sort.W
		if hi < aw {
			return Extract(a.a, hi, lo)
		}
		if lo >= aw {
			return BVConst(w, 0)
		}
		if lo == 0 {
			return Zext(a.a, w)
		}
	case OpSext:
		aw := a.a.sort.W
		if hi < aw {
			return Extract(a.a, hi, lo)
		}
		if lo == 0 {
			return Sext(a.a, w)
		}
	case OpConcat:
		bw := a.b.sort.W
		if hi < bw {
			return Extract(a.b, hi, lo)
		}
		if lo >= bw {
			return Extract(a.a, hi-bw, lo-bw)
		}
	case OpExtract:
		l0 := a.n & 0xff
		return Extract(a.a, hi+l0, lo+l0)
	case OpBAnd, OpBOr, OpBXor:
		if lo == 0 {
			x, y := Extract(a.a, hi, 0), Extract(a.b, hi, 0)
			switch a.op {
			case OpBAnd:
				return BAnd(x, y)
			case OpBOr:
				return BOr(x, y)
			default:
				return BXor(x, y)
			}
		}
	case OpAdd, OpSub, OpMul:
		if lo == 0 && (a.a.op == OpZext || a.a.op == OpSext || a.a.IsConst()) && (a.b.op == OpZext || a.b.op == OpSext || a.b.IsConst()) {
			x, y := Extract(a.a, hi, 0), Extract(a.b, hi, 0)
			switch a.op {
			case OpAdd:
				return Add(x, y)
			case OpSub:
				return Sub(x, y)
			default:
				return Mul(x, y)
			}
		}
	case OpIte:
		if a.b.IsConst() || a.c.IsConst() {
			return Ite(a.a, Extract(a.b, hi, lo), Extract(a.c, hi, lo))
		}
	case OpLShr:
		if a.b.IsConst() && int(a.b.cv)+hi < a.sort.W {
			return Extract(a.a, hi+int(a.b.cv), lo+int(a.b.cv))
		}
	}
	return TS.mk(OpExtract, BV(w), a, nil, nil, hi<<8|lo, 0, "")
}

func Zext(a *Term, w int) *Term {
	if a.sort.W == w {
		return a
	}
	if a.sort.W > w {
		return Extract(a, w-1, 0)
	}
	if a.IsConst() {
		return BVConst(w, a.cv)
	}
	if a.op == OpZext {
		return Zext(a.a, w)
	}
	if a.op == OpIte && a.b.IsConst() && a.c.IsConst() {
		return Ite(a.a, Zext(a.b, w), Zext(a.c, w))
	}
	return TS.mk(OpZext, BV(w), a, nil, nil, 0, 0, "")
}

func Sext(a *Term, w int) *Term {
	if a.sort.W == w {
		return a
	}
	if a.sort.W > w {
		return Extract(a, w-1, 0)
	}
	if a.IsConst() {
		return BVConst(w, uint64(sx(a.cv, a.sort.W)))
	}
	if a.hi < uint64(1)<<uint(a.sort.W-1) {
		return Zext(a, w)
	}
	if a.op == OpSext {
		return Sext(a.a, w)
	}
	return TS.mk(OpSext, BV(w), a, nil, nil, 0, 0, "")
}

func Concat(a, b *Term) *Term {
	w := a.sort.W + b.sort.W
	if a.IsConst() && b.IsConst() && w <= 64 {
		return BVConst(w, a.cv<<uint(b.sort.W)|b.cv)
	}
	if a.IsConst() && a.cv == 0 {
		return Zext(b, w)
	}
	// concat(extract(x,h,m+1), extract(x,m,l)) -> extract(x,h,l)
	if a.op == OpExtract && b.op == OpExtract && a.a == b.a && (a.n&0xff) == (b.n>>8)+1 {
		return Extract(a.a, a.n>>8, b.n&0xff)
	}
	return TS.mk(OpConcat, BV(w), a, b, nil, 0, 0, "")
}

// ---------------------------------------------------------------- FP

func fpIsNaN(t *Term) bool {
	if t.sort.W == 32 {
		f := math.Float32frombits(uint32(t.cv))
		return f != f
	}
	f := math.Float64frombits(t.cv)
	return f != f
}

func fpVal(s Sort, v uint64) float64 {
	if s.W == 32 {
		return float64(math.Float32frombits(uint32(v)))
	}
	return math.Float64frombits(v)
}

func fpBits(s Sort, f float64) uint64 {
	if s.W == 32 {
		return uint64(math.Float32bits(float32(f)))
	}
	return math.Float64bits(f)
}

func FConst64(f float64) *Term { return Const(SFP64, math.Float64bits(f)) }
func FConst32(f float32) *Term { return Const(SFP32, uint64(math.Float32bits(f))) }

func fbin(op Op, a, b *Term) *Term {
	if a.sort != b.sort {
		panic("fp sort mismatch")
	}
	if a.IsConst() && b.IsConst() {
		return Const(a.sort, evalFBin(op, a.sort, a.cv, b.cv))
	}
	return TS.mk(op, a.sort, a, b, nil, 0, 0, "")
}

func evalFBin(op Op, s Sort, x, y uint64) uint64 {
	if s.W == 32 {
		a, b := math.Float32frombits(uint32(x)), math.Float32frombits(uint32(y))
		var r float32
		switch op {
		case OpFAdd:
			r = a + b
		case OpFSub:
			r = a - b
		case OpFMul:
			r = a * b
		case OpFDiv:
			r = a / b
		}
		return uint64(math.Float32bits(r))
	}
	a, b := math.Float64frombits(x), math.Float64frombits(y)
	var r float64
	switch op {
	case OpFAdd:
		r = a + b
	case OpFSub:
		r = a - b
	case OpFMul:
		r = a * b
	case OpFDiv:
		r = a / b
	}
	return math.Float64bits(r)
}

func FAdd(a, b *Term) *Term { return fbin(OpFAdd, a, b) }
func FSub(a, b *Term) *Term { return fbin(OpFSub, a, b) }
func FMul(a, b *Term) *Term { return fbin(OpFMul, a, b) }
func FDiv(a, b *Term) *Term { return fbin(OpFDiv, a, b) }
func FNeg(a *Term) *Term {
	if a.IsConst() {
		if a.sort.W == 32 {
			return Const(a.sort, a.cv^0x80000000)
		}
		return Const(a.sort, a.cv^(1<<63))
	}
	return TS.mk(OpFNeg, a.sort, a, nil, nil, 0, 0, "")
}

func fcmp(op Op, a, b *Term) *Term {
	if a.IsConst() && b.IsConst() {
		x, y := fpVal(a.sort, a.cv), fpVal(b.sort, b.cv)
		switch op {
		case OpFLt:
			return Bool(x < y)
		case OpFLe:
			return Bool(x <= y)
		default:
			return Bool(x == y)
		}
	}
	return TS.mk(op, SBool, a, b, nil, 0, 0, "")
}

func FLt(a, b *Term) *Term { return fcmp(OpFLt, a, b) }
func FLe(a, b *Term) *Term { return fcmp(OpFLe, a, b) }
func FEq(a, b *Term) *Term { return fcmp(OpFEq, a, b) }

func FIsNaN(a *Term) *Term {
	if a.IsConst() {
		return Bool(fpIsNaN(a))
	}
	return TS.mk(OpFIsNaN, SBool, a, nil, nil, 0, 0, "")
}

func FFromBV(a *Term) *Term {
	s := SFP64
	if a.sort.W == 32 {
		s = SFP32
	}
	if a.IsConst() {
		return Const(s, a.cv)
	}
	return TS.mk(OpFFromBV, s, a, nil, nil, 0, 0, "")
}

func FFromS(a *Term, s Sort) *Term {
	if a.IsConst() {
		x := sx(a.cv, a.sort.W)
		if s.W == 32 {
			return Const(s, uint64(math.Float32bits(float32(x))))
		}
		return Const(s, math.Float64bits(float64(x)))
	}
	return TS.mk(OpFFromS, s, a, nil, nil, 0, 0, "")
}

func FFromU(a *Term, s Sort) *Term {
	if a.IsConst() {
		if s.W == 32 {
			return Const(s, uint64(math.Float32bits(float32(a.cv))))
		}
		return Const(s, math.Float64bits(float64(a.cv)))
	}
	return TS.mk(OpFFromU, s, a, nil, nil, 0, 0, "")
}

func FToS(a *Term, w int) *Term {
	if a.IsConst() {
		return BVConst(w, evalFToS(a.sort, a.cv, w))
	}
	// to_sbv(from_sint(x)) -> x when exactly representable
	if a.op == OpFFromS && a.sort.W == 64 {
		if lo, hi, ok := srange(a.a); ok && lo > -(1<<53) && hi < (1<<53) {
			if a.a.sort.W <= w {
				return Sext(a.a, w)
			}
		}
	}
	// from_sint(x) + 0.0
	if a.op == OpFAdd && a.b.IsConst() && a.b.cv == 0 && a.a.op == OpFFromS {
		return FToS(a.a, w)
	}
	return TS.mk(OpFToS, BV(w), a, nil, nil, 0, 0, "")
}

func FToU(a *Term, w int) *Term {
	if a.IsConst() {
		return BVConst(w, evalFToU(a.sort, a.cv, w))
	}
	return TS.mk(OpFToU, BV(w), a, nil, nil, 0, 0, "")
}

func evalFToS(s Sort, v uint64, w int) uint64 {
	f := fpVal(s, v)
	if f != f {
		return uint64(1) << uint(w-1) & mask(w)
	}
	t := math.Trunc(f)
	lim := math.Ldexp(1, w-1)
	if t >= lim || t < -lim {
		return uint64(1) << uint(w-1) & mask(w) // amd64 "indefinite"
	}
	return uint64(int64(t)) & mask(w)
}

func evalFToU(s Sort, v uint64, w int) uint64 {
	f := fpVal(s, v)
	if f != f {
		return uint64(1) << uint(w-1) & mask(w)
	}
	t := math.Trunc(f)
	if t < 0 || t >= math.Ldexp(1, w) {
		return uint64(1) << uint(w-1) & mask(w)
	}
	return uint64(t) & mask(w)
}

func FConv(a *Term, s Sort) *Term {
	if a.sort == s {
		return a
	}
	if a.IsConst() {
		f := fpVal(a.sort, a.cv)
		return Const(s, fpBits(s, f))
	}
	// f32 -> f64 -> f32 is the identity (sNaN quieting not modelled)
	if a.op == OpFConv && a.a.sort == s && s.W == 32 {
		return a.a
	}
	return TS.mk(OpFConv, s, a, nil, nil, 0, 0, "")
}

func UF(name string, res Sort, args ...*Term) *Term {
	TS.ufs[name] = res
	var as []Sort
	for _, a := range args {
		as = append(as, a.sort)
	}
	TS.ufArg[name] = as
	var a, b *Term
	if len(args) > 0 {
		a = args[0]
	}
	if len(args) > 1 {
		b = args[1]
	}
	allc := true
	for _, x := range args {
		if !x.IsConst() {
			allc = false
		}
	}
	_ = allc
	return TS.mk(OpUF, res, a, b, nil, 0, 0, name)
}

// ---------------------------------------------------------------- evaluation

func (ts *TermStore) SetModel(m map[*Term]uint64) {
	ts.model = m
	ts.epoch++
}

func (ts *TermStore) Eval(t *Term) uint64 {
	if t.op == OpConst {
		return t.cv
	}
	if t.evEpoch == ts.epoch {
		return t.evVal
	}
	v := ts.eval1(t)
	t.evEpoch = ts.epoch
	t.evVal = v
	return v
}

func b2u(b bool) uint64 {
	if b {
		return 1
	}
	return 0
}

func (ts *TermStore) eval1(t *Term) uint64 {
	w := t.sort.W
	m := mask(w)
	switch t.op {
	case OpVar:
		return ts.model[t]
	case OpNot:
		return ts.Eval(t.a) ^ 1
	case OpAnd:
		if ts.Eval(t.a) == 0 {
			return 0
		}
		return ts.Eval(t.b)
	case OpOr:
		if ts.Eval(t.a) == 1 {
			return 1
		}
		return ts.Eval(t.b)
	case OpIte:
		if ts.Eval(t.a) == 1 {
			return ts.Eval(t.b)
		}
		return ts.Eval(t.c)
	case OpEq:
		x, y := ts.Eval(t.a), ts.Eval(t.b)
		if t.a.sort.K == KFP {
			if x == y {
				return 1
			}
			fa := Const(t.a.sort, x)
			fb := Const(t.a.sort, y)
			return b2u(fpIsNaN(fa) && fpIsNaN(fb))
		}
		return b2u(x == y)
	case OpAdd:
		return (ts.Eval(t.a) + ts.Eval(t.b)) & m
	case OpSub:
		return (ts.Eval(t.a) - ts.Eval(t.b)) & m
	case OpMul:
		return (ts.Eval(t.a) * ts.Eval(t.b)) & m
	case OpUDiv:
		y := ts.Eval(t.b)
		if y == 0 {
			return m
		}
		return ts.Eval(t.a) / y
	case OpURem:
		y := ts.Eval(t.b)
		if y == 0 {
			return ts.Eval(t.a)
		}
		return ts.Eval(t.a) % y
	case OpSDiv:
		return SDiv(BVConst(w, ts.Eval(t.a)), BVConst(w, ts.Eval(t.b))).cv
	case OpSRem:
		return SRem(BVConst(w, ts.Eval(t.a)), BVConst(w, ts.Eval(t.b))).cv
	case OpBAnd:
		return ts.Eval(t.a) & ts.Eval(t.b)
	case OpBOr:
		return ts.Eval(t.a) | ts.Eval(t.b)
	case OpBXor:
		return ts.Eval(t.a) ^ ts.Eval(t.b)
	case OpBNot:
		return ^ts.Eval(t.a) & m
	case OpNeg:
		return -ts.Eval(t.a) & m
	case OpShl:
		s := ts.Eval(t.b)
		if s >= uint64(w) {
			return 0
		}
		return ts.Eval(t.a) << s & m
	case OpLShr:
		s := ts.Eval(t.b)
		if s >= uint64(w) {
			return 0
		}
		return ts.Eval(t.a) >> s
	case OpAShr:
		s := ts.Eval(t.b)
		if s >= uint64(w) {
			s = uint64(w - 1)
		}
		return uint64(sx(ts.Eval(t.a), w)>>s) & m
	case OpUlt:
		return b2u(ts.Eval(t.a) < ts.Eval(t.b))
	case OpSlt:
		aw := t.a.sort.W
		return b2u(sx(ts.Eval(t.a), aw) < sx(ts.Eval(t.b), aw))
	case OpExtract:
		lo := t.n & 0xff
		return ts.Eval(t.a) >> uint(lo) & m
	case OpZext:
		return ts.Eval(t.a)
	case OpSext:
		return uint64(sx(ts.Eval(t.a), t.a.sort.W)) & m
	case OpConcat:
		return (ts.Eval(t.a)<<uint(t.b.sort.W) | ts.Eval(t.b)) & m
	case OpFAdd, OpFSub, OpFMul, OpFDiv:
		return evalFBin(t.op, t.sort, ts.Eval(t.a), ts.Eval(t.b))
	case OpFNeg:
		if w == 32 {
			return ts.Eval(t.a) ^ 0x80000000
		}
		return ts.Eval(t.a) ^ (1 << 63)
	case OpFLt:
		return b2u(fpVal(t.a.sort, ts.Eval(t.a)) < fpVal(t.a.sort, ts.Eval(t.b)))
	case OpFLe:
		return b2u(fpVal(t.a.sort, ts.Eval(t.a)) <= fpVal(t.a.sort, ts.Eval(t.b)))
	case OpFEq:
		return b2u(fpVal(t.a.sort, ts.Eval(t.a)) == fpVal(t.a.sort, ts.Eval(t.b)))
	case OpFIsNaN:
		f := fpVal(t.a.sort, ts.Eval(t.a))
		return b2u(f != f)
	case OpFFromBV:
		return ts.Eval(t.a)
	case OpFFromS:
		return FFromS(Const(t.a.sort, ts.Eval(t.a)), t.sort).cv
	case OpFFromU:
		return FFromU(Const(t.a.sort, ts.Eval(t.a)), t.sort).cv
	case OpFToS:
		return evalFToS(t.a.sort, ts.Eval(t.a), w)
	case OpFToU:
		return evalFToU(t.a.sort, ts.Eval(t.a), w)
	case OpFConv:
		return fpBits(t.sort, fpVal(t.a.sort, ts.Eval(t.a)))
	case OpUF:
		// uninterpreted: any function is a model; pick a hash of the args so
		// distinct args tend to give distinct results.
		h := uint64(1469598103934665603)
		for _, x := range []*Term{t.a, t.b} {
			if x != nil {
				h = (h ^ ts.Eval(x)) * 1099511628211
			}
		}
		return h & m
	}
	panic(fmt.Sprintf("eval: unhandled op %d", t.op))
}

// ---------------------------------------------------------------- printing

func smtConst(s Sort, v uint64) string {
	switch s.K {
	case KBool:
		if v != 0 {
			return "true"
		}
		return "false"
	case KBV:
		if s.W%4 == 0 {
			return fmt.Sprintf("#x%0*x", s.W/4, v)
		}
		return fmt.Sprintf("#b%0*b", s.W, v)
	default:
		if s.W == 32 {
			return fmt.Sprintf("((_ to_fp 8 24) #x%08x)", v)
		}
		return fmt.Sprintf("((_ to_fp 11 53) #x%016x)", v)
	}
}

func smtName(t *Term) string {
	switch t.op {
	case OpConst:
		return smtConst(t.sort, t.cv)
	case OpVar:
		return t.name
	}
	return fmt.Sprintf("t%d", t.id)
}

// smtBody prints t's defining expression with children referenced by name.
func smtBody(t *Term) string {
	a, b, c := "", "", ""
	if t.a != nil {
		a = smtName(t.a)
	}
	if t.b != nil {
		b = smtName(t.b)
	}
	if t.c != nil {
		c = smtName(t.c)
	}
	bn := func(op string) string { return "(" + op + " " + a + " " + b + ")" }
	fpw := "8 24"
	if t.sort.K == KFP && t.sort.W == 64 {
		fpw = "11 53"
	}
	switch t.op {
	case OpNot:
		return "(not " + a + ")"
	case OpAnd:
		return bn("and")
	case OpOr:
		return bn("or")
	case OpIte:
		return "(ite " + a + " " + b + " " + c + ")"
	case OpEq:
		return bn("=")
	case OpAdd:
		return bn("bvadd")
	case OpSub:
		return bn("bvsub")
	case OpMul:
		return bn("bvmul")
	case OpUDiv:
		return bn("bvudiv")
	case OpURem:
		return bn("bvurem")
	case OpSDiv:
		return bn("bvsdiv")
	case OpSRem:
		return bn("bvsrem")
	case OpBAnd:
		return bn("bvand")
	case OpBOr:
		return bn("bvor")
	case OpBXor:
		return bn("bvxor")
	case OpBNot:
		return "(bvnot " + a + ")"
	case OpNeg:
		return "(bvneg " + a + ")"
	case OpShl:
		return bn("bvshl")
	case OpLShr:
		return bn("bvlshr")
	case OpAShr:
		return bn("bvashr")
	case OpUlt:
		return bn("bvult")
	case OpSlt:
		return bn("bvslt")
	case OpExtract:
		return fmt.Sprintf("((_ extract %d %d) %s)", t.n>>8, t.n&0xff, a)
	case OpZext:
		return fmt.Sprintf("((_ zero_extend %d) %s)", t.sort.W-t.a.sort.W, a)
	case OpSext:
		return fmt.Sprintf("((_ sign_extend %d) %s)", t.sort.W-t.a.sort.W, a)
	case OpConcat:
		return bn("concat")
	case OpFAdd:
		return "(fp.add RNE " + a + " " + b + ")"
	case OpFSub:
		return "(fp.sub RNE " + a + " " + b + ")"
	case OpFMul:
		return "(fp.mul RNE " + a + " " + b + ")"
	case OpFDiv:
		return "(fp.div RNE " + a + " " + b + ")"
	case OpFNeg:
		return "(fp.neg " + a + ")"
	case OpFLt:
		return bn("fp.lt")
	case OpFLe:
		return bn("fp.leq")
	case OpFEq:
		return bn("fp.eq")
	case OpFIsNaN:
		return "(fp.isNaN " + a + ")"
	case OpFFromBV:
		return "((_ to_fp " + fpw + ") " + a + ")"
	case OpFFromS:
		return "((_ to_fp " + fpw + ") RNE " + a + ")"
	case OpFFromU:
		return "((_ to_fp_unsigned " + fpw + ") RNE " + a + ")"
	case OpFToS:
		return fmt.Sprintf("((_ fp.to_sbv %d) RTZ %s)", t.sort.W, a)
	case OpFToU:
		return fmt.Sprintf("((_ fp.to_ubv %d) RTZ %s)", t.sort.W, a)
	case OpFConv:
		return "((_ to_fp " + fpw + ") RNE " + a + ")"
	case OpUF:
		args := []string{}
		if t.a != nil {
			args = append(args, a)
		}
		if t.b != nil {
			args = append(args, b)
		}
		return "(" + t.name + " " + strings.Join(args, " ") + ")"
	}
	panic(fmt.Sprintf("smtBody: op %d", t.op))
}

// Describe renders a term as a nested expression (for evidence samples),
// truncated to a size budget.
func Describe(t *Term, budget int) string {
	var sb strings.Builder
	var rec func(t *Term, d int)
	rec = func(t *Term, d int) {
		if sb.Len() > budget {
			sb.WriteString("…")
			return
		}
		if t.op == OpConst || t.op == OpVar {
			sb.WriteString(smtName(t))
			return
		}
		if d > 6 {
			sb.WriteString(smtName(t))
			return
		}
		body := smtBody(t)
		// replace child names by expansions, cheaply: just print op and recurse
		op := body[1:]
		if i := strings.IndexAny(op, " "); i > 0 {
			op = op[:i]
		}
		if op[0] == '(' {
			j := strings.Index(body[1:], ")")
			op = body[1 : j+2]
		}
		sb.WriteString("(" + op)
		for _, x := range []*Term{t.a, t.b, t.c} {
			if x != nil {
				sb.WriteString(" ")
				rec(x, d+1)
			}
		}
		sb.WriteString(")")
	}
	rec(t, 0)
	return sb.String()
}
