package main

// Symbolic interpreter for go/ssa.

import (
	"fmt"
	"go/constant"
	"go/token"
	"go/types"
	"math"
	"os"
	"strings"

	"golang.org/x/tools/go/ssa"
)

var curIns ssa.Instruction
var brStat = map[string]int{}

type goPanic struct {
	val Value
	msg string
}

type fnInfo struct {
	slot   map[ssa.Value]int
	nslots int
}

type deferred struct {
	fn   *FuncV
	args []Value
	// invoke
	recv   IfaceV
	method *types.Func
}

type frame struct {
	fn      *ssa.Function
	info    *fnInfo
	env     []Value
	defers  []deferred
	panic   *goPanic
	visits  map[*ssa.BasicBlock]int
	callerN int
}

type Interp struct {
	prog      *ssa.Program
	globals   map[*ssa.Global]*Cell
	fnInfos   map[*ssa.Function]*fnInfo
	consts    map[*ssa.Const]Value
	ex        *Explorer
	epoch     int32
	undo      []undoRec
	steps     int64
	totalSteps int64
	maxSteps  int64
	initMode  bool
	depth     int
	unwind    int
	panicking []*frame
	intrinsics map[string]intrinsic
	initPkgs  map[string]bool
	params    map[string]int
	harnessPkg *ssa.Package
	trackShared bool
	mapOrderSym bool
	funcsUsed map[string]bool
	stubsUsed map[string]bool
	trace     bool
	initDone  map[*ssa.Package]bool
	nondetN   int
	tape      []TapeEntry
	pathShared map[string]int
	pathSync   map[string]int // writes made through goroutine-safe containers or under a held lock
	lockDepth  int
	// vPar bookkeeping: objects allocated on this path before the two calls
	// and written (unsynchronised) by each of them
	allocSeq    int32
	parBoundary int32
	parBranch   int
	parWrites   [2]map[interface{}]string
	syncMaps  map[*Cell]*MapObj
}

type intrinsic func(in *Interp, fr *frame, call *ssa.CallCommon, args []Value) Value

func NewInterp(prog *ssa.Program, ex *Explorer) *Interp {
	in := &Interp{prog: prog, globals: map[*ssa.Global]*Cell{}, fnInfos: map[*ssa.Function]*fnInfo{},
		consts: map[*ssa.Const]Value{}, ex: ex, maxSteps: 20_000_000, unwind: 4200,
		funcsUsed: map[string]bool{}, stubsUsed: map[string]bool{}, initDone: map[*ssa.Package]bool{}}
	in.trace = os.Getenv("GOSYM_TRACE") != ""
	in.intrinsics = makeIntrinsics()
	return in
}

func (in *Interp) unsupported(msg string) {
	panic(pathAbort{"unsupported", msg})
}

func (in *Interp) goPanicf(format string, a ...interface{}) {
	msg := fmt.Sprintf(format, a...)
	panic(&goPanic{val: IfaceV{t: types.Typ[types.String], v: constString(msg)}, msg: msg})
}

func (in *Interp) info(fn *ssa.Function) *fnInfo {
	if fi, ok := in.fnInfos[fn]; ok {
		return fi
	}
	fi := &fnInfo{slot: map[ssa.Value]int{}}
	n := 0
	for _, p := range fn.Params {
		fi.slot[p] = n
		n++
	}
	for _, p := range fn.FreeVars {
		fi.slot[p] = n
		n++
	}
	for _, b := range fn.Blocks {
		for _, ins := range b.Instrs {
			if v, ok := ins.(ssa.Value); ok {
				fi.slot[v] = n
				n++
			}
		}
	}
	fi.nslots = n
	in.fnInfos[fn] = fi
	return fi
}

func (in *Interp) globalCell(g *ssa.Global) *Cell {
	if c, ok := in.globals[g]; ok {
		return c
	}
	saved := in.epoch
	in.epoch = 0
	c := in.newCell(g.Type().(*types.Pointer).Elem())
	in.epoch = saved
	if !in.initMode && !in.pkgInitialised(g.Pkg) {
		in.poisonCell(c, "global "+g.String()+" of a package whose init was not interpreted")
	}
	in.globals[g] = c
	return c
}

func (in *Interp) poisonCell(c *Cell, why string) {
	if c.kids != nil {
		for _, k := range c.kids {
			in.poisonCell(k, why)
		}
		return
	}
	c.v = Poison{why}
}

func (in *Interp) pkgInitialised(p *ssa.Package) bool {
	return p == nil || in.initDone[p]
}

func (in *Interp) constVal(c *ssa.Const) Value {
	if v, ok := in.consts[c]; ok {
		return v
	}
	v := in.constVal1(c)
	in.consts[c] = v
	return v
}

func (in *Interp) constVal1(c *ssa.Const) Value {
	t := c.Type()
	if c.Value == nil {
		return zeroValue(t)
	}
	if b, ok := under(t).(*types.Basic); ok {
		switch {
		case b.Info()&types.IsBoolean != 0:
			return Bool(constant.BoolVal(c.Value))
		case b.Info()&types.IsString != 0:
			return constString(constant.StringVal(c.Value))
		case b.Info()&types.IsInteger != 0:
			if i, ok := constant.Int64Val(constant.ToInt(c.Value)); ok {
				return Const(sortOf(t), uint64(i))
			}
			u, _ := constant.Uint64Val(constant.ToInt(c.Value))
			return Const(sortOf(t), u)
		case b.Info()&types.IsFloat != 0:
			f, _ := constant.Float64Val(c.Value)
			if b.Kind() == types.Float32 {
				return FConst32(float32(f))
			}
			return FConst64(f)
		}
	}
	if _, ok := under(t).(*types.Interface); ok {
		// typed constant converted to interface never appears as Const
		return IfaceV{}
	}
	in.unsupported(fmt.Sprintf("constant %v of type %v", c, t))
	return nil
}

func (in *Interp) funcVal(fn *ssa.Function) *FuncV {
	return &FuncV{fn: fn}
}

func (in *Interp) get(fr *frame, v ssa.Value) Value {
	switch x := v.(type) {
	case *ssa.Const:
		return in.constVal(x)
	case *ssa.Global:
		return Ptr{c: in.globalCell(x)}
	case *ssa.Function:
		return in.funcVal(x)
	case *ssa.Builtin:
		return &FuncV{builtin: x}
	}
	i, ok := fr.info.slot[v]
	if !ok {
		panic(fmt.Sprintf("no slot for %v in %v", v, fr.fn))
	}
	return fr.env[i]
}

func (in *Interp) set(fr *frame, v ssa.Value, x Value) {
	fr.env[fr.info.slot[v]] = x
}

func term(v Value) *Term {
	t, ok := v.(*Term)
	if !ok {
		if p, isP := v.(Poison); isP {
			panic(pathAbort{"unsupported", "poison used as scalar: " + p.why})
		}
		panic(fmt.Sprintf("expected scalar term, got %T", v))
	}
	return t
}

// ---------------------------------------------------------------- calls

func (in *Interp) callFn(fv *FuncV, args []Value) Value {
	if fv == nil {
		in.goPanicf("call of nil func")
	}
	if fv.builtin != nil {
		in.unsupported("indirect builtin call " + fv.builtin.Name())
	}
	return in.call(fv.fn, args, fv.binds, nil)
}

func (in *Interp) call(fn *ssa.Function, args []Value, binds []Value, site *ssa.CallCommon) (ret Value) {
	name := fn.String()
	if intr, ok := in.intrinsics[name]; ok {
		in.stubsUsed[name] = true
		return intr(in, nil, site, args)
	}
	if fn.Pkg != nil && fn.Pkg == in.harnessPkg && strings.HasPrefix(fn.Name(), "v") && len(fn.Name()) > 1 && fn.Name()[1] >= 'A' && fn.Name()[1] <= 'Z' && fn.Signature.Recv() == nil {
		if r, ok := in.harnessAPI(fn, args); ok {
			return r
		}
	}
	if in.initMode && fn.Synthetic == "package initializer" && fn.Pkg != nil {
		path := fn.Pkg.Pkg.Path()
		if !in.initDone[fn.Pkg] {
			if !(initAllow[path] || strings.HasPrefix(path, "github.com/tormoder/fit")) {
				return nil
			}
			in.initDone[fn.Pkg] = true
		}
	}
	if fn.Blocks == nil {
		if strings.HasSuffix(name, ".init") && fn.Synthetic != "" {
			return nil
		}
		in.unsupported("function without body: " + name)
	}
	if in.depth > 400 {
		in.unsupported("call depth exceeded in " + name)
	}
	if !in.initMode {
		in.funcsUsed[name] = true
	}
	fi := in.info(fn)
	fr := &frame{fn: fn, info: fi, env: make([]Value, fi.nslots)}
	if len(args) != len(fn.Params) {
		panic(fmt.Sprintf("call %s: %d args for %d params", name, len(args), len(fn.Params)))
	}
	copy(fr.env, args)
	copy(fr.env[len(fn.Params):], binds)
	in.depth++
	defer func() {
		in.depth--
		if r := recover(); r != nil {
			gp, ok := r.(*goPanic)
			if !ok {
				panic(r)
			}
			fr.panic = gp
			in.runDefers(fr)
			if fr.panic != nil {
				panic(fr.panic)
			}
			// recovered
			if fn.Recover != nil {
				ret = in.runBlocks(fr, fn.Recover)
			} else {
				ret = in.zeroResults(fn)
			}
		}
	}()
	return in.runBlocks(fr, fn.Blocks[0])
}

func (in *Interp) zeroResults(fn *ssa.Function) Value {
	res := fn.Signature.Results()
	switch res.Len() {
	case 0:
		return nil
	case 1:
		return zeroValue(res.At(0).Type())
	}
	return zeroValue(res)
}

func (in *Interp) runDefers(fr *frame) {
	in.panicking = append(in.panicking, fr)
	defer func() { in.panicking = in.panicking[:len(in.panicking)-1] }()
	for len(fr.defers) > 0 {
		d := fr.defers[len(fr.defers)-1]
		fr.defers = fr.defers[:len(fr.defers)-1]
		func() {
			defer func() {
				if r := recover(); r != nil {
					gp, ok := r.(*goPanic)
					if !ok {
						panic(r)
					}
					// a panic in a deferred call replaces the current one
					fr.panic = gp
				}
			}()
			if d.method != nil {
				in.invoke(d.recv, d.method, d.args, nil)
			} else if d.fn != nil && d.fn.builtin != nil {
				in.callBuiltin(fr, d.fn.builtin, d.args, nil)
			} else {
				in.callFn(d.fn, d.args)
			}
		}()
	}
}

func (in *Interp) invoke(recv IfaceV, m *types.Func, args []Value, site *ssa.CallCommon) Value {
	if recv.t == nil {
		in.goPanicf("nil pointer dereference: method %s on nil interface", m.Name())
	}
	if rt, ok := recv.v.(RTypeV); ok {
		return in.reflectTypeMethod(rt, m.Name(), args)
	}
	ms := in.prog.MethodSets.MethodSet(recv.t)
	sel := ms.Lookup(m.Pkg(), m.Name())
	if sel == nil {
		panic(fmt.Sprintf("invoke: type %v has no method %s", recv.t, m.Name()))
	}
	fn := in.prog.MethodValue(sel)
	if fn == nil {
		in.unsupported(fmt.Sprintf("no method value for %v.%s", recv.t, m.Name()))
	}
	all := append([]Value{recv.v}, args...)
	return in.call(fn, all, nil, site)
}

// ---------------------------------------------------------------- blocks

func (in *Interp) runBlocks(fr *frame, start *ssa.BasicBlock) Value {
	var prev *ssa.BasicBlock
	b := start
	for {
		if len(b.Preds) > 1 || b == start {
			if fr.visits == nil {
				fr.visits = map[*ssa.BasicBlock]int{}
			}
			fr.visits[b]++
			if fr.visits[b] > in.unwind {
				panic(pathAbort{"unwind", fmt.Sprintf("%s block %d visited more than %d times", fr.fn, b.Index, in.unwind)})
			}
		}
		// phis first (parallel assignment)
		i := 0
		var phiVals []Value
		for ; i < len(b.Instrs); i++ {
			phi, ok := b.Instrs[i].(*ssa.Phi)
			if !ok {
				break
			}
			idx := -1
			for k, p := range b.Preds {
				if p == prev {
					idx = k
					break
				}
			}
			if idx < 0 {
				panic("phi: predecessor not found")
			}
			phiVals = append(phiVals, in.get(fr, phi.Edges[idx]))
		}
		for k := 0; k < i; k++ {
			in.set(fr, b.Instrs[k].(*ssa.Phi), phiVals[k])
		}
		for ; i < len(b.Instrs); i++ {
			in.steps++
			if in.steps > in.maxSteps {
				panic(pathAbort{"budget", "instruction budget exceeded"})
			}
			ins := b.Instrs[i]
			curIns = ins
			if in.trace {
				fmt.Fprintf(os.Stderr, "%*s%s: %v\n", in.depth, "", fr.fn.Name(), ins)
			}
			switch x := ins.(type) {
			case *ssa.If:
				c := term(in.get(fr, x.Cond))
				prev = b
				if in.ex.Branch(c) {
					b = b.Succs[0]
				} else {
					b = b.Succs[1]
				}
				goto nextBlock
			case *ssa.Jump:
				prev = b
				b = b.Succs[0]
				goto nextBlock
			case *ssa.Return:
				switch len(x.Results) {
				case 0:
					return nil
				case 1:
					return in.get(fr, x.Results[0])
				}
				tv := make(TupleV, len(x.Results))
				for k, r := range x.Results {
					tv[k] = in.get(fr, r)
				}
				return tv
			case *ssa.Panic:
				v := in.get(fr, x.X)
				msg := "panic"
				if iv, ok := v.(IfaceV); ok {
					if s, ok := iv.v.(StringV); ok {
						if cs, ok := s.concrete(); ok {
							msg = "panic: " + cs
						} else {
							msg = "panic: <string>"
						}
					} else if iv.t != nil {
						msg = "panic: value of type " + typeString(iv.t)
					}
				}
				panic(&goPanic{val: v, msg: msg})
			case *ssa.RunDefers:
				in.runDefers(fr)
				if fr.panic != nil {
					panic(fr.panic)
				}
			default:
				if in.initMode && fr.fn.Synthetic == "package initializer" {
					in.execTolerant(fr, ins)
				} else {
					in.exec(fr, ins)
				}
			}
		}
		panic("block fell through")
	nextBlock:
	}
}

// ---------------------------------------------------------------- instructions

func (in *Interp) exec(fr *frame, ins ssa.Instruction) {
	switch x := ins.(type) {
	case *ssa.Alloc:
		c := in.newCell(x.Type().(*types.Pointer).Elem())
		in.set(fr, x, Ptr{c: c})
	case *ssa.UnOp:
		in.set(fr, x, in.unop(fr, x))
	case *ssa.BinOp:
		in.set(fr, x, in.binop(x.Op, in.get(fr, x.X), in.get(fr, x.Y), x.X.Type(), x.Y.Type()))
	case *ssa.Store:
		p := in.get(fr, x.Addr).(Ptr)
		in.store(p, in.get(fr, x.Val))
	case *ssa.FieldAddr:
		p := in.get(fr, x.X).(Ptr)
		if p.c == nil {
			in.goPanicf("nil pointer dereference (field address)")
		}
		c := in.resolve(p)
		in.set(fr, x, Ptr{c: c.kids[x.Field]})
	case *ssa.Field:
		s := in.get(fr, x.X)
		if pz, ok := s.(Poison); ok {
			in.set(fr, x, pz)
			return
		}
		in.set(fr, x, s.(*StructV).f[x.Field])
	case *ssa.IndexAddr:
		in.set(fr, x, in.indexAddr(fr, x))
	case *ssa.Index:
		in.set(fr, x, in.indexVal(fr, x))
	case *ssa.Slice:
		in.set(fr, x, in.sliceOp(fr, x))
	case *ssa.MakeSlice:
		ln := in.idx64(term(in.get(fr, x.Len)), x.Len.Type())
		cp := in.idx64(term(in.get(fr, x.Cap)), x.Cap.Type())
		et := under(x.Type()).(*types.Slice).Elem()
		n := in.concretizeLen(cp, "make")
		if int64(n) < 0 || n > 1<<24 {
			in.goPanicf("makeslice: cap out of range")
		}
		ln = in.toInt(ln)
		if !in.ex.Branch(And(Sle(I64(0), ln), Sle(ln, I64(int64(n))))) {
			in.goPanicf("makeslice: len out of range")
		}
		arr := in.newArrayCell(et, int(n))
		in.set(fr, x, SliceV{arr: arr, off: I64(0), ln: ln, cp: I64(int64(n)), elem: et})
	case *ssa.MakeInterface:
		in.set(fr, x, IfaceV{t: x.X.Type(), v: in.get(fr, x.X)})
	case *ssa.ChangeInterface:
		in.set(fr, x, in.get(fr, x.X))
	case *ssa.ChangeType:
		in.set(fr, x, in.get(fr, x.X))
	case *ssa.Convert:
		in.set(fr, x, in.convert(in.get(fr, x.X), x.X.Type(), x.Type()))
	case *ssa.TypeAssert:
		in.set(fr, x, in.typeAssert(fr, x))
	case *ssa.Extract:
		t := in.get(fr, x.Tuple)
		if pz, ok := t.(Poison); ok {
			in.set(fr, x, pz)
			return
		}
		in.set(fr, x, t.(TupleV)[x.Index])
	case *ssa.Call:
		in.set(fr, x, in.callInstr(fr, &x.Call))
	case *ssa.Defer:
		in.deferInstr(fr, x)
	case *ssa.MakeClosure:
		fv := &FuncV{fn: x.Fn.(*ssa.Function)}
		for _, b := range x.Bindings {
			fv.binds = append(fv.binds, in.get(fr, b))
		}
		in.set(fr, x, fv)
	case *ssa.MakeMap:
		mt := under(x.Type()).(*types.Map)
		in.allocSeq++
		in.set(fr, x, MapV{m: &MapObj{born: in.epoch, seq: in.allocSeq, kt: mt.Key(), vt: mt.Elem()}})
	case *ssa.MapUpdate:
		in.mapUpdate(in.get(fr, x.Map), in.get(fr, x.Key), in.get(fr, x.Value))
	case *ssa.Lookup:
		in.set(fr, x, in.lookup(fr, x))
	case *ssa.Range:
		in.set(fr, x, in.rangeOp(in.get(fr, x.X)))
	case *ssa.Next:
		in.set(fr, x, in.nextOp(in.get(fr, x.Iter), x))
	case *ssa.DebugRef:
	case *ssa.SliceToArrayPointer:
		s := in.get(fr, x.X).(SliceV)
		n := under(x.Type().(*types.Pointer).Elem()).(*types.Array).Len()
		if !in.ex.Branch(Sle(I64(n), s.ln)) {
			in.goPanicf("slice to array pointer: length too short")
		}
		off := in.concretize(s.off, "slice2array")
		if off == 0 && s.arr != nil && int64(len(s.arr.kids)) == n {
			in.set(fr, x, Ptr{c: s.arr})
		} else {
			in.unsupported("SliceToArrayPointer into the middle of an array")
		}
	default:
		in.unsupported(fmt.Sprintf("instruction %T", ins))
	}
}

// execTolerant runs one instruction of a package initialiser; a failure
// poisons the instruction's result instead of aborting the initialiser.
func (in *Interp) execTolerant(fr *frame, ins ssa.Instruction) {
	depth := in.depth
	defer func() {
		if r := recover(); r != nil {
			why := ""
			switch x := r.(type) {
			case pathAbort:
				why = x.kind + ": " + x.msg
			case *goPanic:
				why = "panic in init: " + x.msg
			default:
				panic(r)
			}
			in.depth = depth
			if os.Getenv("GOSYM_INITLOG") != "" {
				fmt.Fprintf(os.Stderr, "init poison: %s: %v: %s\n", fr.fn.Pkg.Pkg.Path(), ins, why)
			}
			if v, ok := ins.(ssa.Value); ok {
				in.set(fr, v, Poison{why})
			}
		}
	}()
	in.exec(fr, ins)
}

// resolve turns a pointer with a symbolic element index into a concrete cell
// by case-splitting the index.
func (in *Interp) resolve(p Ptr) *Cell {
	if p.idx == nil {
		return p.c
	}
	i := in.ex.Choose(p.idx)
	return p.c.kids[i]
}

func (in *Interp) load(p Ptr) Value {
	if p.c == nil {
		in.goPanicf("nil pointer dereference")
	}
	if p.idx == nil {
		return in.loadCell(p.c)
	}
	return in.loadIdx(p.c, p.idx)
}

func (in *Interp) store(p Ptr, v Value) {
	if p.c == nil {
		in.goPanicf("nil pointer dereference (store)")
	}
	if p.idx == nil {
		in.storeCell(p.c, v)
		return
	}
	in.storeIdx(p.c, p.idx, v)
}

func valuesIdentical(a, b Value) bool {
	switch x := a.(type) {
	case *Term:
		y, ok := b.(*Term)
		return ok && x == y
	case Ptr:
		y, ok := b.(Ptr)
		return ok && x.c == y.c && x.idx == y.idx
	case *FuncV:
		y, ok := b.(*FuncV)
		return ok && x == y
	case IfaceV:
		y, ok := b.(IfaceV)
		if !ok {
			return false
		}
		if x.t == nil || y.t == nil {
			return x.t == nil && y.t == nil
		}
		return types.Identical(x.t, y.t) && valuesIdentical(x.v, y.v)
	case RTypeV:
		y, ok := b.(RTypeV)
		return ok && types.Identical(x.t, y.t)
	case Poison:
		return false
	}
	return false
}

// loadIdx reads element idx (symbolic, already bounds-checked) of array cell.
func (in *Interp) loadIdx(arr *Cell, idx *Term) Value {
	n := len(arr.kids)
	lo, hi := int(idx.lo), n-1
	if idx.hi < uint64(hi) {
		hi = int(idx.hi)
	}
	if lo > hi {
		lo = 0
	}
	// scalar leaves: ite chain, grouping equal values
	if n > 0 && arr.kids[lo].kids == nil {
		if _, ok := arr.kids[lo].v.(*Term); ok {
			type grp struct {
				v    *Term
				cond *Term
			}
			var groups []*grp
			byV := map[*Term]*grp{}
			for k := lo; k <= hi; k++ {
				if arr.kids[k].rel {
					in.usedAfterPut(arr.kids[k])
				}
				v := arr.kids[k].v.(*Term)
				g := byV[v]
				c := Eq(idx, Const(idx.sort, uint64(k)))
				if g == nil {
					g = &grp{v: v, cond: c}
					byV[v] = g
					groups = append(groups, g)
				} else {
					g.cond = Or(g.cond, c)
				}
			}
			res := groups[len(groups)-1].v
			for k := len(groups) - 2; k >= 0; k-- {
				res = Ite(groups[k].cond, groups[k].v, res)
			}
			return res
		}
		// non-scalar leaves (pointers, funcs, interfaces): decide on the group
		type grp struct {
			v    Value
			cond *Term
		}
		var groups []*grp
		for k := lo; k <= hi; k++ {
			if arr.kids[k].rel {
				in.usedAfterPut(arr.kids[k])
			}
			v := arr.kids[k].v
			c := Eq(idx, Const(idx.sort, uint64(k)))
			found := false
			for _, g := range groups {
				if valuesIdentical(g.v, v) {
					g.cond = Or(g.cond, c)
					found = true
					break
				}
			}
			if !found {
				groups = append(groups, &grp{v: v, cond: c})
			}
		}
		if len(groups) == 1 {
			return groups[0].v
		}
		// selector term: index of the group
		sel := BVConst(16, uint64(len(groups)-1))
		for k := len(groups) - 2; k >= 0; k-- {
			sel = Ite(groups[k].cond, BVConst(16, uint64(k)), sel)
		}
		g := in.ex.Choose(sel)
		return groups[g].v
	}
	k := in.ex.Choose(idx)
	return in.loadCell(arr.kids[k])
}

func (in *Interp) storeIdx(arr *Cell, idx *Term, v Value) {
	n := len(arr.kids)
	if t, ok := v.(*Term); ok && n > 0 && arr.kids[0].kids == nil {
		lo, hi := int(idx.lo), n-1
		if idx.hi < uint64(hi) {
			hi = int(idx.hi)
		}
		if hi-lo < 64 {
			for k := lo; k <= hi; k++ {
				old := arr.kids[k].v.(*Term)
				in.storeCell(arr.kids[k], Ite(Eq(idx, Const(idx.sort, uint64(k))), t, old))
			}
			return
		}
	}
	k := in.ex.Choose(idx)
	in.storeCell(arr.kids[k], v)
}

func (in *Interp) toInt(t *Term) *Term {
	if t.sort.W == 64 {
		return t
	}
	panic("toInt: non-64-bit length")
}

func (in *Interp) concretize(t *Term, why string) uint64 {
	return in.ex.Choose(t)
}

func (in *Interp) concretizeLen(t *Term, why string) uint64 {
	return in.ex.Choose(t)
}

func (in *Interp) unop(fr *frame, x *ssa.UnOp) Value {
	v := in.get(fr, x.X)
	if pz, ok := v.(Poison); ok {
		if in.initMode {
			return pz
		}
		in.unsupported("poison operand: " + pz.why)
	}
	switch x.Op {
	case token.MUL:
		r := in.load(v.(Ptr))
		return r
	case token.NOT:
		return Not(term(v))
	case token.SUB:
		t := term(v)
		if t.sort.K == KFP {
			return FNeg(t)
		}
		return Neg(t)
	case token.XOR:
		return BNot(term(v))
	case token.ARROW:
		in.unsupported("channel receive")
	}
	in.unsupported("unop " + x.Op.String())
	return nil
}

func (in *Interp) shiftCount(y *Term, ysigned bool, w int) *Term {
	if ysigned {
		if !in.ex.Branch(Sle(Const(y.sort, 0), y)) {
			in.goPanicf("negative shift amount")
		}
	}
	if y.sort.W == w {
		return y
	}
	if y.sort.W < w {
		return Zext(y, w)
	}
	// wider count: saturate
	big := Ult(y, Const(y.sort, uint64(w)))
	return Ite(big, Extract(y, w-1, 0), BVConst(w, uint64(w)))
}

func (in *Interp) binop(op token.Token, a, b Value, ta, tb types.Type) Value {
	if pz, ok := a.(Poison); ok {
		if in.initMode {
			return pz
		}
		in.unsupported("poison operand: " + pz.why)
	}
	if pz, ok := b.(Poison); ok {
		if in.initMode {
			return pz
		}
		in.unsupported("poison operand: " + pz.why)
	}
	switch x := a.(type) {
	case *Term:
		y := term(b)
		if x.sort.K == KFP {
			switch op {
			case token.ADD:
				return FAdd(x, y)
			case token.SUB:
				return FSub(x, y)
			case token.MUL:
				return FMul(x, y)
			case token.QUO:
				return FDiv(x, y)
			case token.EQL:
				return FEq(x, y)
			case token.NEQ:
				return Not(FEq(x, y))
			case token.LSS:
				return FLt(x, y)
			case token.LEQ:
				return FLe(x, y)
			case token.GTR:
				return FLt(y, x)
			case token.GEQ:
				return FLe(y, x)
			}
			in.unsupported("fp binop " + op.String())
		}
		if x.sort.K == KBool {
			switch op {
			case token.EQL:
				return Eq(x, y)
			case token.NEQ:
				return Ne(x, y)
			case token.AND, token.LAND:
				return And(x, y)
			case token.OR, token.LOR:
				return Or(x, y)
			}
			in.unsupported("bool binop " + op.String())
		}
		signed := isSigned(ta)
		w := x.sort.W
		switch op {
		case token.ADD:
			return Add(x, y)
		case token.SUB:
			return Sub(x, y)
		case token.MUL:
			return Mul(x, y)
		case token.QUO, token.REM:
			if in.ex.Branch(Eq(y, Const(y.sort, 0))) {
				in.goPanicf("integer divide by zero")
			}
			if signed {
				if op == token.QUO {
					return SDiv(x, y)
				}
				return SRem(x, y)
			}
			if op == token.QUO {
				return UDiv(x, y)
			}
			return URem(x, y)
		case token.AND:
			return BAnd(x, y)
		case token.OR:
			return BOr(x, y)
		case token.XOR:
			return BXor(x, y)
		case token.AND_NOT:
			return BAnd(x, BNot(y))
		case token.SHL:
			return Shl(x, in.shiftCount(y, isSigned(tb), w))
		case token.SHR:
			c := in.shiftCount(y, isSigned(tb), w)
			if signed {
				return AShr(x, c)
			}
			return LShr(x, c)
		case token.EQL:
			return Eq(x, y)
		case token.NEQ:
			return Ne(x, y)
		case token.LSS:
			if signed {
				return Slt(x, y)
			}
			return Ult(x, y)
		case token.LEQ:
			if signed {
				return Sle(x, y)
			}
			return Ule(x, y)
		case token.GTR:
			if signed {
				return Slt(y, x)
			}
			return Ult(y, x)
		case token.GEQ:
			if signed {
				return Sle(y, x)
			}
			return Ule(y, x)
		}
		in.unsupported("int binop " + op.String())
	case StringV:
		y := b.(StringV)
		switch op {
		case token.ADD:
			return strConcat(x, y)
		case token.EQL:
			return in.eqValues(x, y, ta)
		case token.NEQ:
			return Not(in.eqValues(x, y, ta))
		case token.LSS, token.LEQ, token.GTR, token.GEQ:
			xs, ok1 := x.concrete()
			ys, ok2 := y.concrete()
			if ok1 && ok2 {
				switch op {
				case token.LSS:
					return Bool(xs < ys)
				case token.LEQ:
					return Bool(xs <= ys)
				case token.GTR:
					return Bool(xs > ys)
				default:
					return Bool(xs >= ys)
				}
			}
			in.unsupported("ordered comparison of symbolic strings")
		}
	}
	switch op {
	case token.EQL:
		return in.eqValues(a, b, ta)
	case token.NEQ:
		return Not(in.eqValues(a, b, ta))
	}
	in.unsupported(fmt.Sprintf("binop %s on %T", op, a))
	return nil
}

func strConcat(x, y StringV) StringV {
	if x.isPlain() && y.isPlain() {
		b := make([]*Term, 0, len(x.b)+len(y.b))
		b = append(b, x.b...)
		b = append(b, y.b...)
		return StringV{b: b}
	}
	var parts []StringV
	add := func(s StringV) {
		if len(s.parts) > 0 {
			parts = append(parts, s.parts...)
		} else if s.opaque != "" || len(s.b) > 0 {
			parts = append(parts, s)
		}
	}
	add(x)
	add(y)
	return StringV{parts: parts}
}

// eqValues builds the Go == comparison as a Bool term.
func (in *Interp) eqValues(a, b Value, t types.Type) *Term {
	switch x := a.(type) {
	case *Term:
		y := term(b)
		if x.sort.K == KFP {
			return FEq(x, y)
		}
		return Eq(x, y)
	case Ptr:
		y, ok := b.(Ptr)
		if !ok {
			return False
		}
		if x.idx != nil || y.idx != nil {
			x = Ptr{c: in.resolve(x)}
			y = Ptr{c: in.resolve(y)}
		}
		return Bool(x.c == y.c)
	case StringV:
		y := b.(StringV)
		if !x.isPlain() || !y.isPlain() {
			return Bool(opaqueStrEq(x, y))
		}
		if len(x.b) != len(y.b) {
			return False
		}
		r := True
		for i := range x.b {
			r = And(r, Eq(x.b[i], y.b[i]))
		}
		return r
	case IfaceV:
		y, ok := b.(IfaceV)
		if !ok {
			return False
		}
		if x.t == nil || y.t == nil {
			return Bool(x.t == nil && y.t == nil)
		}
		if _, ok := x.v.(RTypeV); ok {
			return Bool(valuesIdentical(x.v, y.v))
		}
		if !types.Identical(x.t, y.t) {
			return False
		}
		if !types.Comparable(x.t) {
			in.goPanicf("runtime error: comparing uncomparable type %s", typeString(x.t))
		}
		return in.eqValues(x.v, y.v, x.t)
	case *StructV:
		y := b.(*StructV)
		r := True
		var st *types.Struct
		if t != nil {
			st, _ = under(t).(*types.Struct)
		}
		for i := range x.f {
			var ft types.Type
			if st != nil {
				if st.Field(i).Name() == "_" {
					continue
				}
				ft = st.Field(i).Type()
			}
			r = And(r, in.eqValues(x.f[i], y.f[i], ft))
		}
		return r
	case *ArrayV:
		y := b.(*ArrayV)
		r := True
		var et types.Type
		if t != nil {
			if at, ok := under(t).(*types.Array); ok {
				et = at.Elem()
			}
		}
		for i := range x.e {
			r = And(r, in.eqValues(x.e[i], y.e[i], et))
		}
		return r
	case *FuncV:
		y, _ := b.(*FuncV)
		if x == nil || y == nil {
			return Bool(x == nil && y == nil)
		}
		in.unsupported("comparison of non-nil funcs")
	case SliceV:
		y := b.(SliceV)
		if x.arr == nil || y.arr == nil {
			return Bool(x.arr == nil && y.arr == nil)
		}
		in.unsupported("comparison of non-nil slices")
	case MapV:
		y := b.(MapV)
		if x.m == nil || y.m == nil {
			return Bool(x.m == nil && y.m == nil)
		}
		in.unsupported("comparison of non-nil maps")
	case RVal:
		in.unsupported("comparison of reflect.Value")
	case nil:
		return Bool(b == nil)
	}
	in.unsupported(fmt.Sprintf("equality on %T", a))
	return nil
}

func opaqueStrEq(x, y StringV) bool {
	return fmt.Sprint(strKey(x)) == fmt.Sprint(strKey(y))
}

func strKey(s StringV) string {
	if len(s.parts) > 0 {
		var sb strings.Builder
		for _, p := range s.parts {
			sb.WriteString(strKey(p))
			sb.WriteString("|")
		}
		return sb.String()
	}
	if s.opaque != "" {
		return "<" + s.opaque + ">"
	}
	var sb strings.Builder
	for _, t := range s.b {
		sb.WriteString(smtName(t))
		sb.WriteString(",")
	}
	return sb.String()
}

func (in *Interp) convert(v Value, from, to types.Type) Value {
	if pz, ok := v.(Poison); ok {
		if in.initMode {
			return pz
		}
		in.unsupported("poison operand: " + pz.why)
	}
	fu, tu := under(from), under(to)
	switch x := v.(type) {
	case *Term:
		tb, ok := tu.(*types.Basic)
		if !ok {
			in.unsupported(fmt.Sprintf("convert scalar to %v", to))
		}
		if tb.Info()&types.IsString != 0 {
			// string(rune)
			if x.IsConst() {
				return constString(string(rune(sx(x.cv, x.sort.W))))
			}
			in.unsupported("string(symbolic rune)")
		}
		ts := sortOf(to)
		switch {
		case x.sort.K == KBV && ts.K == KBV:
			if ts.W <= x.sort.W {
				return Extract(x, ts.W-1, 0)
			}
			if isSigned(from) {
				return Sext(x, ts.W)
			}
			return Zext(x, ts.W)
		case x.sort.K == KBV && ts.K == KFP:
			if isSigned(from) {
				return FFromS(x, ts)
			}
			return FFromU(x, ts)
		case x.sort.K == KFP && ts.K == KBV:
			if isSigned(to) {
				return FToS(x, ts.W)
			}
			return FToU(x, ts.W)
		case x.sort.K == KFP && ts.K == KFP:
			return FConv(x, ts)
		case x.sort.K == KBool && ts.K == KBool:
			return x
		}
	case StringV:
		if _, ok := tu.(*types.Basic); ok {
			return x
		}
		if st, ok := tu.(*types.Slice); ok {
			if !x.isPlain() {
				in.unsupported("[]byte(opaque string)")
			}
			if b, ok := under(st.Elem()).(*types.Basic); ok && b.Kind() == types.Uint8 {
				arr := in.newArrayCell(st.Elem(), len(x.b))
				for i, t := range x.b {
					arr.kids[i].v = t
				}
				n := I64(int64(len(x.b)))
				return SliceV{arr: arr, off: I64(0), ln: n, cp: n, elem: st.Elem()}
			}
			in.unsupported("[]rune(string)")
		}
	case SliceV:
		if tb, ok := tu.(*types.Basic); ok && tb.Info()&types.IsString != 0 {
			if x.arr == nil {
				return StringV{}
			}
			n := int(in.concretizeLen(x.ln, "string(bytes)"))
			off := int(in.concretize(x.off, "string(bytes) off"))
			b := make([]*Term, n)
			for i := 0; i < n; i++ {
				if x.arr.kids[off+i].rel {
					in.usedAfterPut(x.arr.kids[off+i])
				}
				b[i] = term(x.arr.kids[off+i].v)
			}
			return StringV{b: b}
		}
		if _, ok := tu.(*types.Slice); ok {
			return x
		}
	case Ptr:
		if _, ok := tu.(*types.Pointer); ok {
			if _, ok2 := fu.(*types.Pointer); ok2 {
				return x
			}
		}
		in.unsupported(fmt.Sprintf("pointer conversion %v -> %v (unsafe)", from, to))
	}
	in.unsupported(fmt.Sprintf("convert %v -> %v (%T)", from, to, v))
	return nil
}

func (in *Interp) implements(dyn types.Type, iface *types.Interface) bool {
	return types.Implements(dyn, iface)
}

func (in *Interp) typeAssert(fr *frame, x *ssa.TypeAssert) Value {
	v := in.get(fr, x.X)
	if pz, ok := v.(Poison); ok {
		if in.initMode {
			return pz
		}
		in.unsupported("poison operand: " + pz.why)
	}
	iv := v.(IfaceV)
	ok := false
	var res Value
	if it, isIface := under(x.AssertedType).(*types.Interface); isIface {
		if iv.t != nil {
			if _, isRT := iv.v.(RTypeV); isRT {
				ok = false
			} else {
				ok = in.implements(iv.t, it)
			}
		}
		if ok {
			res = iv
		} else {
			res = IfaceV{}
		}
	} else {
		ok = iv.t != nil && types.Identical(iv.t, x.AssertedType)
		if ok {
			res = iv.v
		} else {
			res = zeroValue(x.AssertedType)
		}
	}
	if x.CommaOk {
		return TupleV{res, Bool(ok)}
	}
	if !ok {
		d := "nil"
		if iv.t != nil {
			d = typeString(iv.t)
		}
		in.goPanicf("interface conversion: interface is %s, not %s", d, typeString(x.AssertedType))
	}
	return res
}

func (in *Interp) indexAddr(fr *frame, x *ssa.IndexAddr) Value {
	base := in.get(fr, x.X)
	idx := term(in.get(fr, x.Index))
	idx = in.idx64(idx, x.Index.Type())
	switch b := base.(type) {
	case Ptr: // *array
		if b.c == nil {
			in.goPanicf("nil pointer dereference (index)")
		}
		c := in.resolve(b)
		n := len(c.kids)
		if !in.ex.Branch(Ult(idx, U64(uint64(n)))) {
			in.goPanicf("index out of range [%s] with length %d", Describe(idx, 40), n)
		}
		if idx.IsConst() {
			return Ptr{c: c.kids[idx.cv]}
		}
		return Ptr{c: c, idx: idx}
	case SliceV:
		if b.arr == nil {
			in.goPanicf("index out of range [%s] with length 0", Describe(idx, 40))
		}
		if !in.ex.Branch(Ult(idx, b.ln)) {
			in.goPanicf("index out of range [%s] with length %s", Describe(idx, 40), Describe(b.ln, 40))
		}
		pos := Add(b.off, idx)
		if pos.IsConst() {
			return Ptr{c: b.arr.kids[pos.cv]}
		}
		// constrain range for the ite chains: pos < len(arr)
		return Ptr{c: b.arr, idx: pos}
	case Poison:
		in.unsupported("index of poison: " + b.why)
	}
	in.unsupported(fmt.Sprintf("IndexAddr on %T", base))
	return nil
}

func (in *Interp) idx64(idx *Term, t types.Type) *Term {
	if idx.sort.W == 64 {
		return idx
	}
	if isSigned(t) {
		return Sext(idx, 64)
	}
	return Zext(idx, 64)
}

func (in *Interp) indexVal(fr *frame, x *ssa.Index) Value {
	base := in.get(fr, x.X)
	idx := in.idx64(term(in.get(fr, x.Index)), x.Index.Type())
	switch b := base.(type) {
	case *ArrayV:
		n := len(b.e)
		if !in.ex.Branch(Ult(idx, U64(uint64(n)))) {
			in.goPanicf("index out of range [%s] with length %d", Describe(idx, 40), n)
		}
		if idx.IsConst() {
			return b.e[idx.cv]
		}
		// build a temporary cell view
		tmp := &Cell{t: x.X.Type(), born: in.epoch}
		tmp.kids = make([]*Cell, n)
		for i := range tmp.kids {
			tmp.kids[i] = &Cell{v: b.e[i], born: in.epoch}
			if isAggVal(b.e[i]) {
				k := in.ex.Choose(idx)
				return b.e[k]
			}
		}
		return in.loadIdx(tmp, idx)
	case StringV:
		if !b.isPlain() {
			in.unsupported("index of opaque string")
		}
		n := len(b.b)
		if !in.ex.Branch(Ult(idx, U64(uint64(n)))) {
			in.goPanicf("string index out of range")
		}
		if idx.IsConst() {
			return b.b[idx.cv]
		}
		tmp := &Cell{born: in.epoch, kids: make([]*Cell, n)}
		for i := range tmp.kids {
			tmp.kids[i] = &Cell{v: b.b[i], born: in.epoch}
		}
		return in.loadIdx(tmp, idx)
	}
	in.unsupported(fmt.Sprintf("Index on %T", base))
	return nil
}

func (in *Interp) optInt(fr *frame, v ssa.Value) *Term {
	if v == nil {
		return nil
	}
	return in.idx64(term(in.get(fr, v)), v.Type())
}

func (in *Interp) sliceOp(fr *frame, x *ssa.Slice) Value {
	base := in.get(fr, x.X)
	lo, hi, mx := in.optInt(fr, x.Low), in.optInt(fr, x.High), in.optInt(fr, x.Max)
	if lo == nil {
		lo = I64(0)
	}
	check := func(c *Term, what string) {
		if !in.ex.Branch(c) {
			in.goPanicf("slice bounds out of range (%s)", what)
		}
	}
	switch b := base.(type) {
	case StringV:
		if !b.isPlain() {
			in.unsupported("slice of opaque string")
		}
		n := I64(int64(len(b.b)))
		if hi == nil {
			hi = n
		}
		check(Ule(hi, n), "string high")
		check(Ule(lo, hi), "string low")
		l := in.concretize(lo, "string slice low")
		h := in.concretize(hi, "string slice high")
		return StringV{b: b.b[l:h]}
	case Ptr: // *array
		if b.c == nil {
			in.goPanicf("nil pointer dereference (slice of *array)")
		}
		c := in.resolve(b)
		n := I64(int64(len(c.kids)))
		if hi == nil {
			hi = n
		}
		if mx == nil {
			mx = n
		} else {
			check(Ule(mx, n), "max > cap")
		}
		check(Ule(hi, mx), "high > max")
		check(Ule(lo, hi), "low > high")
		et := under(c.t).(*types.Array).Elem()
		return SliceV{arr: c, off: lo, ln: Sub(hi, lo), cp: Sub(mx, lo), elem: et}
	case SliceV:
		if b.arr == nil {
			b = nilSlice(b.elem)
		}
		if hi == nil {
			hi = b.ln
		}
		if mx == nil {
			mx = b.cp
		} else {
			check(Ule(mx, b.cp), "max > cap")
		}
		check(Ule(hi, mx), "high > cap")
		check(Ule(lo, hi), "low > high")
		if b.arr == nil {
			return nilSlice(b.elem)
		}
		return SliceV{arr: b.arr, off: Add(b.off, lo), ln: Sub(hi, lo), cp: Sub(mx, lo), elem: b.elem}
	case Poison:
		in.unsupported("slice of poison: " + b.why)
	}
	in.unsupported(fmt.Sprintf("Slice on %T", base))
	return nil
}

// ---------------------------------------------------------------- maps

func (in *Interp) keyEq(a, b Value, kt types.Type) *Term {
	return in.eqValues(a, b, kt)
}

func (in *Interp) mapUpdate(mv Value, k, v Value) {
	m := mv.(MapV).m
	if m == nil {
		in.goPanicf("assignment to entry in nil map")
	}
	for i, e := range m.entries {
		eq := in.keyEq(e.k, k, m.kt)
		if in.ex.Branch(eq) {
			ne := make([]mapEntry, len(m.entries))
			copy(ne, m.entries)
			ne[i].v = v
			in.setEntries(m, ne)
			return
		}
	}
	ne := make([]mapEntry, len(m.entries), len(m.entries)+1)
	copy(ne, m.entries)
	ne = append(ne, mapEntry{k, v})
	in.setEntries(m, ne)
}

func (in *Interp) setEntries(m *MapObj, ne []mapEntry) {
	if in.parBranch > 0 && m.born == in.epoch && m.seq <= in.parBoundary && m.kt != nil && in.lockDepth == 0 {
		in.parWrites[in.parBranch-1][m] = "map[" + typeString(m.kt) + "]" + typeString(m.vt)
	}
	if m.born < in.epoch {
		in.undo = append(in.undo, undoRec{m: m, ent: m.entries})
		if m.born == 0 && in.epoch > 0 {
			in.sharedWriteMap(m)
		}
	}
	m.entries = ne
}

func (in *Interp) mapDelete(mv Value, k Value) {
	m := mv.(MapV).m
	if m == nil {
		return
	}
	for i, e := range m.entries {
		if in.ex.Branch(in.keyEq(e.k, k, m.kt)) {
			ne := make([]mapEntry, 0, len(m.entries))
			ne = append(ne, m.entries[:i]...)
			ne = append(ne, m.entries[i+1:]...)
			in.setEntries(m, ne)
			return
		}
	}
}

func (in *Interp) lookup(fr *frame, x *ssa.Lookup) Value {
	base := in.get(fr, x.X)
	if s, ok := base.(StringV); ok {
		idx := in.idx64(term(in.get(fr, x.Index)), x.Index.Type())
		if !s.isPlain() {
			in.unsupported("index of opaque string")
		}
		if !in.ex.Branch(Ult(idx, U64(uint64(len(s.b))))) {
			in.goPanicf("string index out of range")
		}
		if idx.IsConst() {
			return s.b[idx.cv]
		}
		tmp := &Cell{born: in.epoch, kids: make([]*Cell, len(s.b))}
		for i := range tmp.kids {
			tmp.kids[i] = &Cell{v: s.b[i], born: in.epoch}
		}
		return in.loadIdx(tmp, idx)
	}
	if pz, ok := base.(Poison); ok {
		in.unsupported("lookup in poison: " + pz.why)
	}
	m := base.(MapV).m
	mt := under(x.X.Type()).(*types.Map)
	k := in.get(fr, x.Index)
	zero := zeroValue(mt.Elem())
	var val Value = zero
	found := False
	if m != nil {
		// scalar values: ite chain; otherwise decide per entry
		_, scalar := zero.(*Term)
		if scalar {
			vt := zero.(*Term)
			for i := len(m.entries) - 1; i >= 0; i-- {
				e := m.entries[i]
				eq := in.keyEq(e.k, k, mt.Key())
				vt = Ite(eq, term(e.v), vt)
				found = Or(eq, found)
			}
			val = vt
		} else {
			for _, e := range m.entries {
				if in.ex.Branch(in.keyEq(e.k, k, mt.Key())) {
					val = e.v
					found = True
					break
				}
			}
		}
	}
	if x.CommaOk {
		return TupleV{val, found}
	}
	return val
}

func (in *Interp) rangeOp(v Value) Value {
	switch x := v.(type) {
	case MapV:
		it := &IterV{}
		if x.m != nil {
			it.entries = append(it.entries, x.m.entries...)
			if in.mapOrderSym && len(it.entries) > 1 {
				// pick an arbitrary permutation: selection by nondeterministic choices
				rest := it.entries
				var perm []mapEntry
				for len(rest) > 1 {
					in.nondetN++
					sel := in.rangedVar(fmt.Sprintf("maporder_%d_%d", in.nondetN, len(rest)), BV(8), 0, uint64(len(rest)-1))
					k := in.ex.Choose(sel)
					perm = append(perm, rest[k])
					nr := make([]mapEntry, 0, len(rest)-1)
					nr = append(nr, rest[:k]...)
					nr = append(nr, rest[k+1:]...)
					rest = nr
				}
				perm = append(perm, rest...)
				it.entries = perm
			}
		}
		return it
	case StringV:
		s := x
		return &IterV{str: &s}
	}
	in.unsupported(fmt.Sprintf("range over %T", v))
	return nil
}

func (in *Interp) nextOp(v Value, x *ssa.Next) Value {
	it := v.(*IterV)
	if x.IsString {
		s := it.str
		if it.pos >= len(s.b) {
			return TupleV{False, I64(0), BVConst(32, 0)}
		}
		b := s.b[it.pos]
		if in.ex.Branch(Ult(b, BVConst(8, 0x80))) {
			r := TupleV{True, I64(int64(it.pos)), Zext(b, 32)}
			it.pos++
			return r
		}
		// UTF-8 decoding as the language defines it for range: an invalid
		// or truncated sequence yields U+FFFD and advances one byte
		rn, w := in.decodeRune(s.b[it.pos:])
		r := TupleV{True, I64(int64(it.pos)), rn}
		it.pos += w
		return r
	}
	tt := x.Type().(*types.Tuple)
	if it.pos >= len(it.entries) {
		return TupleV{False, zeroValue(tt.At(1).Type()), zeroValue(tt.At(2).Type())}
	}
	e := it.entries[it.pos]
	it.pos++
	return TupleV{True, e.k, e.v}
}

// decodeRune decodes the UTF-8 sequence at the start of b (first byte known
// to be >= 0x80), branching on the byte classes.
func (in *Interp) decodeRune(b []*Term) (*Term, int) {
	bad := BVConst(32, 0xFFFD)
	inR := func(t *Term, lo, hi uint64) bool {
		return in.ex.Branch(And(Ule(BVConst(8, lo), t), Ule(t, BVConst(8, hi))))
	}
	low6 := func(t *Term) *Term { return Zext(BAnd(t, BVConst(8, 0x3F)), 32) }
	b0 := b[0]
	switch {
	case inR(b0, 0xC2, 0xDF):
		if len(b) < 2 || !inR(b[1], 0x80, 0xBF) {
			return bad, 1
		}
		return BOr(Shl(Zext(BAnd(b0, BVConst(8, 0x1F)), 32), BVConst(32, 6)), low6(b[1])), 2
	case inR(b0, 0xE0, 0xEF):
		lo, hi := uint64(0x80), uint64(0xBF)
		if in.ex.Branch(Eq(b0, BVConst(8, 0xE0))) {
			lo = 0xA0
		} else if in.ex.Branch(Eq(b0, BVConst(8, 0xED))) {
			hi = 0x9F
		}
		if len(b) < 3 || !inR(b[1], lo, hi) || !inR(b[2], 0x80, 0xBF) {
			return bad, 1
		}
		r := BOr(Shl(Zext(BAnd(b0, BVConst(8, 0x0F)), 32), BVConst(32, 12)), BOr(Shl(low6(b[1]), BVConst(32, 6)), low6(b[2])))
		return r, 3
	case inR(b0, 0xF0, 0xF4):
		lo, hi := uint64(0x80), uint64(0xBF)
		if in.ex.Branch(Eq(b0, BVConst(8, 0xF0))) {
			lo = 0x90
		} else if in.ex.Branch(Eq(b0, BVConst(8, 0xF4))) {
			hi = 0x8F
		}
		if len(b) < 4 || !inR(b[1], lo, hi) || !inR(b[2], 0x80, 0xBF) || !inR(b[3], 0x80, 0xBF) {
			return bad, 1
		}
		r := BOr(Shl(Zext(BAnd(b0, BVConst(8, 0x07)), 32), BVConst(32, 18)), BOr(Shl(low6(b[1]), BVConst(32, 12)), BOr(Shl(low6(b[2]), BVConst(32, 6)), low6(b[3]))))
		return r, 4
	}
	return bad, 1
}

// ---------------------------------------------------------------- call instruction

func (in *Interp) evalArgs(fr *frame, c *ssa.CallCommon) []Value {
	args := make([]Value, len(c.Args))
	for i, a := range c.Args {
		args[i] = in.get(fr, a)
	}
	return args
}

func (in *Interp) callInstr(fr *frame, c *ssa.CallCommon) Value {
	args := in.evalArgs(fr, c)
	if c.IsInvoke() {
		recv := in.get(fr, c.Value)
		if pz, ok := recv.(Poison); ok {
			if in.initMode {
				return pz
			}
			in.unsupported("invoke on poison: " + pz.why)
		}
		return in.invoke(recv.(IfaceV), c.Method, args, c)
	}
	switch f := c.Value.(type) {
	case *ssa.Builtin:
		return in.callBuiltin(fr, f, args, c)
	case *ssa.Function:
		return in.call(f, args, nil, c)
	}
	fv := in.get(fr, c.Value)
	if pz, ok := fv.(Poison); ok {
		in.unsupported("call of poison: " + pz.why)
	}
	f := fv.(*FuncV)
	if f == nil {
		in.goPanicf("call of nil function")
	}
	if f.builtin != nil {
		return in.callBuiltin(fr, f.builtin, args, c)
	}
	return in.call(f.fn, args, f.binds, c)
}

func (in *Interp) deferInstr(fr *frame, x *ssa.Defer) {
	c := &x.Call
	d := deferred{args: in.evalArgs(fr, c)}
	if c.IsInvoke() {
		d.recv = in.get(fr, c.Value).(IfaceV)
		d.method = c.Method
	} else {
		switch f := c.Value.(type) {
		case *ssa.Builtin:
			d.fn = &FuncV{builtin: f}
		case *ssa.Function:
			d.fn = &FuncV{fn: f}
		default:
			d.fn = in.get(fr, c.Value).(*FuncV)
		}
	}
	fr.defers = append(fr.defers, d)
}

func (in *Interp) callBuiltin(fr *frame, b *ssa.Builtin, args []Value, site *ssa.CallCommon) Value {
	switch b.Name() {
	case "len":
		switch x := args[0].(type) {
		case SliceV:
			if x.arr == nil {
				return I64(0)
			}
			return x.ln
		case StringV:
			if !x.isPlain() {
				in.unsupported("len of opaque string")
			}
			return I64(int64(len(x.b)))
		case MapV:
			if x.m == nil {
				return I64(0)
			}
			// keys are pairwise distinct by construction of mapUpdate
			return I64(int64(len(x.m.entries)))
		case Ptr:
			return I64(int64(len(x.c.kids)))
		case *ArrayV:
			return I64(int64(len(x.e)))
		}
	case "cap":
		switch x := args[0].(type) {
		case SliceV:
			if x.arr == nil {
				return I64(0)
			}
			return x.cp
		case Ptr:
			return I64(int64(len(x.c.kids)))
		case *ArrayV:
			return I64(int64(len(x.e)))
		}
	case "copy":
		return in.copyOp(args[0], args[1])
	case "append":
		return in.appendOp(args[0], args[1], site)
	case "panic":
		panic(&goPanic{val: args[0], msg: "panic"})
	case "recover":
		if len(in.panicking) > 0 {
			top := in.panicking[len(in.panicking)-1]
			if top.panic != nil {
				v := top.panic.val
				top.panic = nil
				if iv, ok := v.(IfaceV); ok {
					return iv
				}
				return IfaceV{t: types.Typ[types.String], v: constString("panic")}
			}
		}
		return IfaceV{}
	case "delete":
		in.mapDelete(args[0], args[1])
		return nil
	case "min", "max":
		r := term(args[0])
		signed := isSigned(site.Args[0].Type())
		for _, a := range args[1:] {
			t := term(a)
			var lt *Term
			if r.sort.K == KFP {
				in.unsupported("min/max on floats")
			}
			if signed {
				lt = Slt(t, r)
			} else {
				lt = Ult(t, r)
			}
			if b.Name() == "max" {
				var gt *Term
				if signed {
					gt = Slt(r, t)
				} else {
					gt = Ult(r, t)
				}
				r = Ite(gt, t, r)
			} else {
				r = Ite(lt, t, r)
			}
		}
		return r
	case "print", "println":
		return nil
	case "ssa:wrapnilchk":
		p := args[0].(Ptr)
		if p.c == nil {
			in.goPanicf("value method called using nil pointer")
		}
		return p
	case "clear":
		in.unsupported("clear builtin")
	}
	in.unsupported(fmt.Sprintf("builtin %s on %T", b.Name(), args[0]))
	return nil
}

// copyOp implements copy(dst, src) with possibly symbolic lengths.
func (in *Interp) copyOp(dstv, srcv Value) Value {
	dst := dstv.(SliceV)
	var srcLen *Term
	var srcAt func(i int) *Term // element i of src by absolute offset (concrete)
	var srcOff *Term
	var srcCells []*Cell
	switch s := srcv.(type) {
	case SliceV:
		if s.arr == nil {
			return I64(0)
		}
		srcLen, srcOff, srcCells = s.ln, s.off, s.arr.kids
	case StringV:
		if !s.isPlain() {
			in.unsupported("copy from opaque string")
		}
		srcLen, srcOff = I64(int64(len(s.b))), I64(0)
		srcAt = func(i int) *Term { return s.b[i] }
	}
	if dst.arr == nil {
		return I64(0)
	}
	n := Ite(Slt(srcLen, dst.ln), srcLen, dst.ln)
	if n.IsConst() && n.cv == 0 {
		return n
	}
	doff := in.concretize(dst.off, "copy dst offset")
	soff := in.concretize(srcOff, "copy src offset")
	get := func(i int) Value {
		if srcAt != nil {
			return srcAt(int(soff) + i)
		}
		return in.loadCell(srcCells[int(soff)+i])
	}
	if n.IsConst() {
		cnt := int(n.cv)
		// memmove semantics: read all first when overlapping
		vals := make([]Value, cnt)
		for i := 0; i < cnt; i++ {
			vals[i] = get(i)
		}
		for i := 0; i < cnt; i++ {
			in.storeCell(dst.arr.kids[int(doff)+i], vals[i])
		}
		return n
	}
	// symbolic count: bound by the room available
	maxN := len(dst.arr.kids) - int(doff)
	if srcAt == nil {
		if m := len(srcCells) - int(soff); m < maxN {
			maxN = m
		}
	}
	if uint64(maxN) > n.hi {
		maxN = int(n.hi)
	}
	scalar := true
	if maxN > 0 {
		if _, ok := dst.arr.kids[doff].v.(*Term); !ok || dst.arr.kids[doff].kids != nil {
			scalar = false
		}
	}
	if !scalar || maxN > 1024 {
		cnt := int(in.concretizeLen(n, "copy length"))
		vals := make([]Value, cnt)
		for i := 0; i < cnt; i++ {
			vals[i] = get(i)
		}
		for i := 0; i < cnt; i++ {
			in.storeCell(dst.arr.kids[int(doff)+i], vals[i])
		}
		return I64(int64(cnt))
	}
	vals := make([]*Term, maxN)
	for i := 0; i < maxN; i++ {
		vals[i] = term(get(i))
	}
	for i := 0; i < maxN; i++ {
		c := dst.arr.kids[int(doff)+i]
		in.storeCell(c, Ite(Slt(I64(int64(i)), n), vals[i], term(c.v)))
	}
	return n
}

func (in *Interp) appendOp(dstv, srcv Value, site *ssa.CallCommon) Value {
	dst := dstv.(SliceV)
	var et types.Type = dst.elem
	if site != nil {
		et = under(site.Args[0].Type()).(*types.Slice).Elem()
	}
	var srcVals []Value
	switch s := srcv.(type) {
	case SliceV:
		if s.arr == nil {
			if dst.arr == nil {
				return nilSlice(et)
			}
			return dst
		}
		n := int(in.concretizeLen(s.ln, "append src len"))
		off := int(in.concretize(s.off, "append src off"))
		for i := 0; i < n; i++ {
			srcVals = append(srcVals, in.loadCell(s.arr.kids[off+i]))
		}
	case StringV:
		if !s.isPlain() {
			in.unsupported("append opaque string")
		}
		for _, t := range s.b {
			srcVals = append(srcVals, t)
		}
	}
	if len(srcVals) == 0 {
		return dst
	}
	var dl, dc, doff int
	if dst.arr != nil {
		dl = int(in.concretizeLen(dst.ln, "append dst len"))
		dc = int(in.concretizeLen(dst.cp, "append dst cap"))
		doff = int(in.concretize(dst.off, "append dst off"))
	}
	need := dl + len(srcVals)
	if need <= dc {
		for i, v := range srcVals {
			in.storeCell(dst.arr.kids[doff+dl+i], v)
		}
		return SliceV{arr: dst.arr, off: dst.off, ln: I64(int64(need)), cp: dst.cp, elem: et}
	}
	nc := dc * 2
	if nc < need {
		nc = need
	}
	arr := in.newArrayCell(et, nc)
	for i := 0; i < dl; i++ {
		in.storeCell(arr.kids[i], in.loadCell(dst.arr.kids[doff+i]))
	}
	for i, v := range srcVals {
		in.storeCell(arr.kids[dl+i], v)
	}
	return SliceV{arr: arr, off: I64(0), ln: I64(int64(need)), cp: I64(int64(nc)), elem: et}
}

// ---------------------------------------------------------------- shared-state tracking

func (in *Interp) sharedWrite(c *Cell) {
	if !in.trackShared {
		return
	}
	name := in.describeGlobalCell(c)
	if in.lockDepth > 0 {
		// under a held sync.Mutex / inside sync.Once: synchronised, not a
		// premise-P write; whether it changes results is decided by the
		// history-independence assertions
		in.noteSync("locked: " + name)
		return
	}
	in.ex.shareWrites[name]++
	if in.pathShared == nil {
		in.pathShared = map[string]int{}
	}
	in.pathShared[name]++
}

func (in *Interp) noteSync(name string) {
	if in.pathSync == nil {
		in.pathSync = map[string]int{}
	}
	in.pathSync[name]++
	in.ex.shareWrites["(synchronised) "+name]++
}

func (in *Interp) sharedWriteMap(m *MapObj) {
	if !in.trackShared {
		return
	}
	if m.kt == nil {
		// sync.Map: goroutine-safe by contract
		in.noteSync("sync.Map")
		return
	}
	name := "map:" + typeString(m.kt) + "->" + typeString(m.vt)
	if in.lockDepth > 0 {
		in.noteSync("locked: " + name)
		return
	}
	in.ex.shareWrites[name]++
	if in.pathShared == nil {
		in.pathShared = map[string]int{}
	}
	in.pathShared[name]++
}

func (in *Interp) describeGlobalCell(c *Cell) string {
	for g, gc := range in.globals {
		if cellContains(gc, c, 0) {
			return g.String()
		}
	}
	return "init-allocated object of type " + typeString(c.t)
}

func cellContains(root, c *Cell, depth int) bool {
	if root == c {
		return true
	}
	if depth > 3 {
		return false
	}
	for _, k := range root.kids {
		if cellContains(k, c, depth+1) {
			return true
		}
	}
	return false
}

var _ = math.MaxInt32
