package main

// Go values as seen by the symbolic interpreter.

import (
	"fmt"
	"go/types"

	"golang.org/x/tools/go/ssa"
)

type Value interface{}

// Cell is a memory location. Leaves hold a Value; struct and array cells hold
// child cells. born is the path epoch in which the cell was allocated (0 =
// package initialisation, shared between paths and between "calls").
type Cell struct {
	v    Value
	kids []*Cell
	born int32
	seq  int32 // allocation order within the engine run (for vPar: did the object exist before the two calls?)
	rel  bool  // the object was handed back to a sync.Pool and not taken out again
	t    types.Type
}

// Ptr is a Go pointer: concrete target cell, or element idx (symbolic) of the
// array cell c when idx != nil.
type Ptr struct {
	c   *Cell
	idx *Term
}

type SliceV struct {
	arr          *Cell // array cell (kids = elements); nil for the nil slice
	off, ln, cp  *Term // 64-bit
	elem         types.Type
}

type StringV struct {
	b []*Term // 8-bit terms; concrete length
	// opaque pieces (results of stubbed formatting functions) compare by name
	opaque string
	parts  []StringV
}

type IfaceV struct {
	t types.Type // dynamic type; nil = nil interface
	v Value
}

type FuncV struct {
	fn      *ssa.Function
	binds   []Value
	builtin *ssa.Builtin
}

type mapEntry struct {
	k, v Value
}

type MapObj struct {
	entries []mapEntry
	born    int32
	seq     int32
	kt, vt  types.Type
}

type MapV struct{ m *MapObj }

type StructV struct{ f []Value }
type ArrayV struct{ e []Value }
type TupleV []Value

// reflect.Value model
type RVal struct {
	t  types.Type // nil = zero Value
	c  *Cell      // addressable location, or nil
	v  Value      // value when not addressable
	ro bool       // reached through an unexported field
}

// reflect.Type model (dynamic value inside an interface of type reflect.Type)
type RTypeV struct{ t types.Type }

type Poison struct{ why string }

// map iterator
type IterV struct {
	entries []mapEntry
	pos     int
	str     *StringV
}

var W64 = 64

func I64(v int64) *Term  { return BVConst(64, uint64(v)) }
func U64(v uint64) *Term { return BVConst(64, v) }

func under(t types.Type) types.Type { return t.Underlying() }

func basicInfo(t types.Type) (types.BasicInfo, types.BasicKind, bool) {
	b, ok := under(t).(*types.Basic)
	if !ok {
		return 0, 0, false
	}
	return b.Info(), b.Kind(), true
}

func intWidth(k types.BasicKind) int {
	switch k {
	case types.Int8, types.Uint8:
		return 8
	case types.Int16, types.Uint16:
		return 16
	case types.Int32, types.Uint32:
		return 32
	case types.Int64, types.Uint64, types.Int, types.Uint, types.Uintptr, types.UntypedInt, types.UntypedRune:
		return 64
	case types.Bool, types.UntypedBool:
		return 1
	}
	return 0
}

func isSigned(t types.Type) bool {
	info, _, ok := basicInfo(t)
	return ok && info&types.IsInteger != 0 && info&types.IsUnsigned == 0
}

func isInteger(t types.Type) bool {
	info, _, ok := basicInfo(t)
	return ok && info&types.IsInteger != 0
}

func isFloat(t types.Type) bool {
	info, _, ok := basicInfo(t)
	return ok && info&types.IsFloat != 0
}

func isString(t types.Type) bool {
	info, _, ok := basicInfo(t)
	return ok && info&types.IsString != 0
}

func isBoolT(t types.Type) bool {
	info, _, ok := basicInfo(t)
	return ok && info&types.IsBoolean != 0
}

func sortOf(t types.Type) Sort {
	_, k, ok := basicInfo(t)
	if !ok {
		panic(fmt.Sprintf("sortOf: not basic: %v", t))
	}
	switch k {
	case types.Bool, types.UntypedBool:
		return SBool
	case types.Float32:
		return SFP32
	case types.Float64, types.UntypedFloat:
		return SFP64
	}
	w := intWidth(k)
	if w == 0 {
		panic(fmt.Sprintf("sortOf: unsupported basic %v", t))
	}
	return BV(w)
}

// nilSlice is the nil slice of element type et (zero length terms, so that
// slicing and comparing lengths need no special case).
func nilSlice(et types.Type) SliceV {
	return SliceV{elem: et, off: I64(0), ln: I64(0), cp: I64(0)}
}

func isReflectValue(t types.Type) bool {
	n, ok := t.(*types.Named)
	if !ok {
		return false
	}
	o := n.Obj()
	return o.Pkg() != nil && o.Pkg().Path() == "reflect" && o.Name() == "Value"
}

func zeroValue(t types.Type) Value {
	if isReflectValue(t) {
		return RVal{}
	}
	switch u := under(t).(type) {
	case *types.Basic:
		switch {
		case u.Info()&types.IsString != 0:
			return StringV{}
		case u.Kind() == types.UnsafePointer:
			return Ptr{}
		case u.Kind() == types.UntypedNil, u.Kind() == types.Invalid:
			return nil
		case u.Info()&types.IsComplex != 0:
			return Poison{"complex"}
		}
		return Const(sortOf(t), 0)
	case *types.Pointer:
		return Ptr{}
	case *types.Slice:
		return nilSlice(u.Elem())
	case *types.Map:
		return MapV{}
	case *types.Chan:
		return Ptr{}
	case *types.Signature:
		return (*FuncV)(nil)
	case *types.Interface:
		return IfaceV{}
	case *types.Struct:
		s := &StructV{f: make([]Value, u.NumFields())}
		for i := range s.f {
			s.f[i] = zeroValue(u.Field(i).Type())
		}
		return s
	case *types.Array:
		a := &ArrayV{e: make([]Value, u.Len())}
		if u.Len() > 0 {
			z := zeroValue(u.Elem())
			_, agg1 := z.(*StructV)
			_, agg2 := z.(*ArrayV)
			for i := range a.e {
				if agg1 || agg2 {
					a.e[i] = zeroValue(u.Elem())
				} else {
					a.e[i] = z
				}
			}
		}
		return a
	case *types.Tuple:
		tv := make(TupleV, u.Len())
		for i := range tv {
			tv[i] = zeroValue(u.At(i).Type())
		}
		return tv
	}
	panic(fmt.Sprintf("zeroValue: unsupported type %v (%T)", t, under(t)))
}

func (in *Interp) newCell(t types.Type) *Cell {
	in.allocSeq++
	c := &Cell{born: in.epoch, seq: in.allocSeq, t: t}
	if isReflectValue(t) {
		c.v = RVal{}
		return c
	}
	switch u := under(t).(type) {
	case *types.Struct:
		c.kids = make([]*Cell, u.NumFields())
		for i := range c.kids {
			c.kids[i] = in.newCell(u.Field(i).Type())
		}
		if len(c.kids) == 0 {
			c.v = &StructV{}
		}
	case *types.Array:
		n := int(u.Len())
		c.kids = make([]*Cell, n)
		et := u.Elem()
		if _, ok := under(et).(*types.Basic); ok && !isString(et) {
			z := zeroValue(et)
			block := make([]Cell, n)
			for i := range c.kids {
				block[i] = Cell{v: z, born: in.epoch, seq: in.allocSeq, t: et}
				c.kids[i] = &block[i]
			}
		} else {
			for i := range c.kids {
				c.kids[i] = in.newCell(et)
			}
		}
		if n == 0 {
			c.v = &ArrayV{}
		}
	default:
		c.v = zeroValue(t)
	}
	return c
}

// newArrayCell allocates an array of n elements of type et.
func (in *Interp) newArrayCell(et types.Type, n int) *Cell {
	return in.newCell(types.NewArray(et, int64(n)))
}

func isAgg(c *Cell) bool { return c.kids != nil || (c.v != nil && isAggVal(c.v)) }

func isAggVal(v Value) bool {
	switch v.(type) {
	case *StructV, *ArrayV:
		return true
	}
	return false
}

func (in *Interp) loadCell(c *Cell) Value {
	if c.kids == nil {
		if c.rel {
			in.usedAfterPut(c)
		}
		if p, ok := c.v.(Poison); ok && !in.initMode {
			in.unsupported("read of uninitialised/poisoned global: " + p.why)
		}
		return c.v
	}
	if _, ok := under(c.t).(*types.Struct); ok {
		s := &StructV{f: make([]Value, len(c.kids))}
		for i, k := range c.kids {
			s.f[i] = in.loadCell(k)
		}
		return s
	}
	a := &ArrayV{e: make([]Value, len(c.kids))}
	for i, k := range c.kids {
		a.e[i] = in.loadCell(k)
	}
	return a
}

type undoRec struct {
	c   *Cell
	old Value
	m   *MapObj
	ent []mapEntry
}

func (in *Interp) storeCell(c *Cell, v Value) {
	if c.kids != nil {
		switch x := v.(type) {
		case *StructV:
			for i, k := range c.kids {
				in.storeCell(k, x.f[i])
			}
		case *ArrayV:
			for i, k := range c.kids {
				in.storeCell(k, x.e[i])
			}
		case Poison:
			for _, k := range c.kids {
				in.storeCell(k, x)
			}
		default:
			panic(fmt.Sprintf("storeCell: aggregate cell %v gets %T", c.t, v))
		}
		return
	}
	if c.rel {
		in.usedAfterPut(c)
	}
	if in.parBranch > 0 && c.born == in.epoch && c.seq <= in.parBoundary && in.lockDepth == 0 {
		in.parWrites[in.parBranch-1][c] = typeString(c.t)
	}
	if c.born < in.epoch {
		in.undo = append(in.undo, undoRec{c: c, old: c.v})
		if c.born == 0 && in.epoch > 0 {
			in.sharedWrite(c)
		}
	}
	c.v = v
}

func (in *Interp) rollback() {
	for i := len(in.undo) - 1; i >= 0; i-- {
		u := in.undo[i]
		if u.c != nil {
			u.c.v = u.old
		} else {
			u.m.entries = u.ent
		}
	}
	in.undo = in.undo[:0]
}

func constString(s string) StringV {
	b := make([]*Term, len(s))
	for i := 0; i < len(s); i++ {
		b[i] = byteConsts[s[i]]
	}
	return StringV{b: b}
}

var byteConsts [256]*Term

func init() {
	for i := range byteConsts {
		byteConsts[i] = BVConst(8, uint64(i))
	}
}

// concrete string content, if all bytes are constants and nothing is opaque
func (s StringV) concrete() (string, bool) {
	if s.opaque != "" || len(s.parts) > 0 {
		return "", false
	}
	bs := make([]byte, len(s.b))
	for i, t := range s.b {
		if !t.IsConst() {
			return "", false
		}
		bs[i] = byte(t.cv)
	}
	return string(bs), true
}

func (s StringV) isPlain() bool { return s.opaque == "" && len(s.parts) == 0 }

func typeString(t types.Type) string {
	return types.TypeString(t, nil)
}
