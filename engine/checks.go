package main

// Check definitions: which harness instances decide which property.

import (
	"encoding/json"
	"fmt"
	"os"
	"os/exec"
	"path/filepath"
	"strings"
	"time"
)

type CheckDef struct {
	ID             string
	Level          string
	Meta           string // harness whose vOut values parameterise the job list
	Jobs           func(tier string, meta map[string]int) []Job
	MustReach      []string
	Bounds         map[string]interface{}
	Outside        []string
	Assumptions    []string
	NoNativeReplay map[string]bool
	Explanation    string
	Gen            func() error
	RaceID         string // native replays run under -race; a detector report counts as a failure of this assertion
	// Rotate: harness name -> m. When set, the thorough tier runs the whole
	// instance list that Jobs("quick") returns, and the quick tier runs, per
	// harness named here, the instances whose ordinal o satisfies
	// (o + VERIF_SEED) % m == 0, plus the core instances (coreInstance).
	Rotate map[string]int
}

// coreInstance: instances of rotated harnesses that run in every quick run
// (the messages most files consist of, and the unknown message number).
func coreInstance(j Job) bool {
	g, ok := j.Params["gmn"]
	if !ok {
		return false
	}
	switch g {
	case 0, 18, 19, 20, 21, 23, 34, 0xFFF0:
		return j.Harness != "H02b" || g == 20
	}
	return false
}

func rotateJobs(jobs []Job, rot map[string]int, seed int) []Job {
	var out []Job
	ord := map[string]int{}
	for _, j := range jobs {
		name := j.Pkg + "." + j.Harness
		m, ok := rot[name]
		if !ok {
			out = append(out, j)
			continue
		}
		o := ord[name]
		ord[name]++
		if coreInstance(j) || (o+seed)%m == 0 {
			out = append(out, j)
		}
	}
	return out
}

var checkDefs = map[string]*CheckDef{}

func reg(d *CheckDef) {
	if d.Level == "" {
		d.Level = "model_checking"
	}
	checkDefs[d.ID] = d
}

var commonAssumptions = []string{
	"go/ssa (x/tools v0.29.0) is a faithful lowering of the Go source in /repo's working tree; the Go compiler and runtime implement the same semantics; int is 64 bit",
	"z3 5.1.0 (z3-new) is sound; any (error line, unknown answer, unwinding failure or unsupported instruction makes the run inconclusive (exit 2), never green",
	"symbolic inputs are bit-vectors of the Go width (wrapping arithmetic); floats use the SMT FloatingPoint theory with RNE, float->int conversion RTZ",
}

func job(pkg, h string, kv ...interface{}) Job {
	j := Job{Pkg: pkg, Harness: h, Params: map[string]int{}}
	for i := 0; i+1 < len(kv); i += 2 {
		j.Params[kv[i].(string)] = kv[i+1].(int)
	}
	return j
}

func init() {
	reg(&CheckDef{
		ID: "C14",
		Jobs: func(tier string, meta map[string]int) []Job {
			js := []Job{job("dyncrc16", "H14a"), job("dyncrc16", "H14c")}
			for l := 0; l <= 8; l++ {
				js = append(js, job("dyncrc16", "H14b", "L", l))
			}
			maxD := 2
			if tier == "thorough" {
				maxD = 3
			}
			for l := 1; l <= maxD; l++ {
				js = append(js, job("dyncrc16", "H14d", "L", l))
			}
			return js
		},
		MustReach: []string{"C14.step", "C14.split", "C14.residue", "C14.checksum", "C14.reset", "C14.checksum.ref"},
		Bounds: map[string]interface{}{
			"quick":    "transition function (updateByte == bit-serial CRC-16/ARC step) and residue rule: none, all 2^16 states x 2^8 bytes; streaming interface (Write/Checksum/New/Reset == left fold of updateByte, any split point, arbitrary start state): data length <= 8; direct comparison with the bit-serial reference over whole data: length <= 2",
			"thorough": "as quick; direct comparison with the bit-serial reference: length <= 3",
		},
		Outside:     []string{"streaming over more than the stated number of bytes is covered only by induction on the per-byte step (H14a) — a paper argument"},
		Assumptions: commonAssumptions,
	})
}

func init() {
	reg(&CheckDef{
		ID: "C12",
		Jobs: func(tier string, meta map[string]int) []Job {
			js := []Job{job("fit", "H12a")}
			for big := 0; big <= 1; big++ {
				for _, h := range []string{"H12b", "H12c", "H12d"} {
					js = append(js, job("fit", h, "big", big))
				}
				js = append(js, job("fit", "H12e", "big", big, "local", 0, "mid", 0), job("fit", "H12e", "big", big, "local", 1, "mid", 0),
					job("fit", "H12e", "big", big, "local", 0, "mid", 1))
			}
			return js
		},
		MustReach: []string{"C12.compressed.rule", "C12.explicit.rebases", "C12.utc.keeps-reference", "C12.local.wallclock", "C12.local.offset", "C12.sequence.second-compressed"},
		Bounds: map[string]interface{}{
			"quick":    "none on values: all 2^32 reference timestamps x 32 stored offsets x 256 header bytes (step lemma from any state satisfying Inv_ts), all 2^32 field values, both byte orders; sequences: explicit timestamp, optional local timestamp, two compressed records (longer runs by induction on the step lemma)",
			"thorough": "same",
		},
		Outside: []string{"runs of more than two compressed records are covered by induction on H12a (Inv_ts is re-established by every writer outside the known-finding class) — a paper argument",
			"definitions with several fields and narrower sizes are C02's subject"},
		Assumptions: append([]string{"decoder pre-state built directly (var d decoder; fields set), record bytes placed in the decoder's buffer by vFeed",
			"Inv_ts: timestamp != 0 => lastTimeOffset == timestamp & 31 (assumed in H12a, shown re-established in H12a/H12b; the local-timestamp writer is covered by H12e)"}, commonAssumptions...),
	})
	reg(&CheckDef{
		ID: "C17",
		Jobs: func(tier string, meta map[string]int) []Job {
			js := []Job{job("fit", "H17a"), job("fit", "H17b"), job("fit", "H17t")}
			rt, edgeW := 12, 256
			if tier == "thorough" {
				rt, edgeW = 14, 16384
			}
			for lat := 0; lat <= 1; lat++ {
				for neg := 0; neg <= 1; neg++ {
					for k := -1; k <= 30; k++ {
						if k == -1 && neg == 1 {
							continue
						}
						if !(lat == 1 && neg == 0 && k == 30) { // every latitude >= 2^30 is invalid in the code (see KF-C17-lat-plus90): nothing to convert
							js = append(js, job("fit", "H17d", "k", k, "neg", neg, "lat", lat))
						}
						if k <= rt {
							j := job("fit", "H17e", "k", k, "neg", neg, "lat", lat)
							j.Timeout = 300000
							js = append(js, j)
						}
					}
					// the ends of the legal range, W values wide
					j := job("fit", "H17e", "k", -2, "neg", neg, "lat", lat, "w", edgeW)
					j.Timeout = 300000
					js = append(js, j)
				}
			}
			return js
		},
		MustReach: []string{"C17.lat.invalid-iff", "C17.lng.invalid-iff", "C17.degrees.exact", "C17.lat.roundtrip", "C17.lng.roundtrip", "C17.time.roundtrip"},
		Bounds: map[string]interface{}{
			"quick":    "integer clauses, NaN-iff-invalid, Degrees exactness and the time bijection: none (all 2^32 values; Degrees decided per magnitude class 2^k <= |s| < 2^(k+1), all 31 classes x sign x type); degrees->semicircles round trip within one semicircle: |s| < 2^13 and the 256 legal values next to each end of the range (+-2^30 for latitude, +-2^31 for longitude) only",
			"thorough": "as quick; round trip: |s| < 2^15 and 16384 values next to each end",
		},
		Outside: []string{"round trip for |s| between the stated magnitude and the end windows: two FP multiplications by an inexact constant do not finish (z3 5.1.0 > 600 s at 2^20)",
			"the printed form (strconv.FormatFloat) is not encodable"},
		Assumptions: append([]string{"time.Time methods are executed from the standard library's SSA; interval simplifier rewrites (x*1e9)/1e9 -> x when no overflow is possible"}, commonAssumptions...),
	})
}

// hostJobs is one instance of harness h per message number (in the first
// file type hosting it; every hosting file type when all) plus file_id,
// file_creator and timestamp_correlation.
func hostJobs(meta map[string]int, h string, all bool) []Job {
	var js []Job
	seen := map[int]bool{}
	for ti := 0; ti < 17; ti++ {
		for i := 0; i < meta[fmt.Sprintf("nhost_%d", ti)]; i++ {
			g := meta[fmt.Sprintf("host_%d_%d", ti, i)]
			if seen[g] && !all {
				continue
			}
			seen[g] = true
			js = append(js, job("fit", h, "ti", ti, "gmn", g, "big", (ti+g)%2))
		}
	}
	for _, g := range []int{0, 49, 162} {
		js = append(js, job("fit", h, "ti", 3, "gmn", g, "big", g%2))
	}
	return js
}

func msgJobs(meta map[string]int, pkg, h string, extra ...interface{}) []Job {
	var js []Job
	for i := 0; i < meta["nmsgs"]; i++ {
		kv := append([]interface{}{"gmn", meta[fmt.Sprintf("msg_%d", i)]}, extra...)
		js = append(js, job(pkg, h, kv...))
	}
	return js
}

func init() {
	reg(&CheckDef{
		ID:   "C01",
		Rotate: map[string]int{"fit.H01a": 2, "fit.H01s": 2},
		Meta: "fit.Hmeta",
		Outside: []string{"byte strings outside H01a's single-field definitions and the stream model (fully symbolic streams of more than a few bytes explode: > 10^4 paths at 12 data bytes, almost all early rejections)",
			"'no hang' is covered as 'every loop terminated within the unwinding bound (4200 iterations per loop head) on every explored path'; readers that violate the io.Reader contract (0 bytes without error, forever) are outside the claim",
			"definition records with more than the model's field counts (e.g. 255 fields / 255 developer fields filling the 765-byte scratch buffer) are not explored"},
		Jobs: func(tier string, meta map[string]int) []Job {
			allstr := 0
			if tier == "thorough" {
				allstr = 1
			}
			js := msgJobs(meta, "fit", "H01a", "allstr", allstr)
			js = append(js, job("fit", "H01a", "gmn", 0xFFF0, "allstr", allstr)) // a message number the profile does not know
			// whole runs of every entry point on the stream model, whole and cut
			n := 2
			if tier == "thorough" {
				n = 3
			}
			for _, k := range kindSeqs(n) {
				js = append(js, job("fit", "H01s", "n", n, "kinds", k, "crc", k%2, "chunk", []int{0, 1, 3}[k%3], "cut", 0))
				if tier == "thorough" || k%2 == 0 {
					js = append(js, job("fit", "H01s", "n", n, "kinds", k, "crc", (k+1)%2, "chunk", []int{0, 1, 3}[(k+1)%3], "cut", 1))
				}
			}
			// the record dispatcher from an arbitrary reference-timestamp state (shared with C13)
			js = append(js, job("fit", "H13", "defkind", 0), job("fit", "H13b"))
			js = append(js, job("fit", "H16c"), job("fit", "H16d"), job("fit", "H13e"), job("fit", "H02d"))
			js = append(js, job("fit", "H12d", "big", 0), job("fit", "H12d", "big", 1)) // local time against an arbitrary reference
			// streams at the size limits of the format (file_id record beyond the 4096-byte buffer, 90-field definition, 5 x 255 developer bytes)
			for _, extra := range []int{0, 17} {
				for _, chunk := range []int{0, 7} {
					js = append(js, job("fit", "Hwide", "extra", extra, "hrlast", chunk%2, "chunk", chunk))
				}
			}
			return js
		},
		MustReach: []string{"decoded", "rejected", "routed", "C01.field.consumed-size", "entry-points-returned"},
		Bounds: map[string]interface{}{
			"quick": "H01a (parse one record, then hand the message to a File of every hosting type, which routes it and expands components): every single-field definition, exhaustively: each of the profile's message numbers (from the tree) plus one unknown number x all 256 field numbers x all 256 base-type bytes x all sizes 0-255 x both byte orders x all data bytes (string sizes restricted to {0..8,16,127,128,254,255}; string arrays: sizes 0..6 fully symbolic, larger with one terminator); H01s: all five entry points (Decode also with all options) on every stream of the model with n = 2 records, whole and (half of the sequences) cut at every offset, chunk sizes 1, 3, unlimited; H13/H13b: one record through the dispatcher from an arbitrary reference timestamp; Hwide: all entry points on a stream at the size limits of the format (file_id record with 0 or 17 unlisted 255-byte fields, a 90-field definition, a definition with 5 developer fields of 255 bytes), whole and in 7-byte reads",
			"thorough": "H01a with every string size and two terminators in string arrays of up to 24 bytes; H01s with n = 3 (every third of the 1000 kind orders) and every sequence cut",
		},
		Assumptions: commonAssumptions,
	})
}

func init() {
	reg(&CheckDef{
		ID: "C18",
		Jobs: func(tier string, meta map[string]int) []Job {
			var js []Job
			for _, h := range []string{"H18lap", "H18session", "H18seglap", "H18event", "H18record", "H18acc", "H18seq", "H18seg"} {
				js = append(js, job("fit", h))
			}
			return js
		},
		MustReach: []string{"C18.lap.avg-speed", "C18.session.min-altitude", "C18.seglap.min-altitude", "C18.event.gear", "C18.record.csd-distance", "C18.record.others-unchanged", "C18.acc.step", "C18.seq.per-file", "C18.seg.expanded"},
		Bounds: map[string]interface{}{
			"quick":    "each of the five expansions from a message whose every integer field is arbitrary (all bit patterns of all sources and destinations); accumulator step from an arbitrary (sum,last,mask) state; sequences: two records in one file then the first record of a second file",
			"thorough": "same",
		},
		Outside: []string{"streams longer than the stated sequence: by induction on the accumulator step (paper argument)",
			"expansions of messages the property does not name (hr, ant_rx, ant_tx, exd_*, segment_point)",
			"chained expansion (compressed speed -> speed -> enhanced_speed) is not required by the property and not asserted"},
		Assumptions: commonAssumptions,
	})
}

func init() {
	reg(&CheckDef{
		ID:   "C04",
		Meta: "fit.Hmeta",
		Jobs: func(tier string, meta map[string]int) []Job {
			js := []Job{job("dyncrc16", "H04lin"), job("dyncrc16", "H04ker"), job("dyncrc16", "H04burst"), job("dyncrc16", "H14c"),
				job("fit", "H04hdr", "size", 12), job("fit", "H04hdr", "size", 14), job("fit", "H04agree", "chunk", 0), job("fit", "H04agree", "chunk", 1), job("fit", "H04agree", "chunk", 5)}
			const fileLen = 14 + 34 + 2
			bits := 8
			if tier == "thorough" {
				bits = 16
			}
			for q := 0; q < fileLen; q++ {
				if q == 4 || q == 5 {
					continue // a burst starting here lies entirely inside the data-size field
				}
				for o := 0; o < 8; o++ {
					// skip windows that lie entirely in the size / data-size fields
					free := false
					for b := q; b < q+(bits+o+7)/8 && b < fileLen; b++ {
						if !(b == 0 || (b >= 4 && b <= 7)) {
							free = true
						}
					}
					if free {
						b := bits
						if q >= 11 && q <= 13 {
							b = 16 // the header CRC bytes: zeroing both turns the header check off
						}
						js = append(js, job("fit", "H04burst", "q", q, "o", o, "bits", b))
					}
				}
			}
			maxD := 2
			if tier == "thorough" {
				maxD = 4
			}
			for D := 1; D <= maxD; D++ {
				for q := 0; q < 12+D+2; q++ {
					if q == 4 || q == 5 {
						continue
					}
					j := job("fit", "H04sym", "D", D, "q", q)
					j.Timeout = 300000
					js = append(js, j)
				}
			}
			// first clause: what Encode produced passes CheckIntegrity (H05 carries
			// the assertion; every hosted message with every field set, both byte
			// orders, with and without header CRC)
			for _, e := range encJobs(tier, meta) {
				if e.Params["fi"] == -1 {
					js = append(js, e)
					e2 := e
					e2.Params = map[string]int{}
					for k, v := range e.Params {
						e2.Params[k] = v
					}
					e2.Params["crc"] = 1 - e.Params["crc"]
					js = append(js, e2)
				}
			}
			return js
		},
		MustReach: []string{"C04.lemma.linear", "C04.lemma.kernel", "C04.lemma.injective", "C04.lemma.burst", "C04.hdr.rule", "C04.hdr.method-vs-decodeheader", "C04.burst.decode-detects", "C04.sym.checkintegrity-detects", "C04.encode-output-passes-checkintegrity", "C04.agree.checkintegrity-accepts-what-decode-accepts"},
		Bounds: map[string]interface{}{
			"quick":    "lemmas on updateByte: none (all states, bytes, 16-bit patterns, 8 bit offsets); header verdicts: all 2^104 / 2^88 header byte values for sizes 14 and 12; direct bursts: every pattern of <= 8 contiguous bits (<= 16 at the header CRC bytes) at every bit position of one concrete 50-byte activity file (Decode and CheckIntegrity); the same file with a stored header CRC of 0 (not computed) or the computed one: all entry points accept, every <= 16-bit pattern at every position of every accepted frame with a 12-byte header and D <= 2 arbitrary data bytes (CheckIntegrity); Encode output passes CheckIntegrity: one File per (file type, hosted message) with every field set to fixed values, both byte orders, headers with and without CRC",
			"thorough": "as quick with <= 16-bit patterns on the concrete file and D <= 4",
		},
		Outside: []string{"frames longer than the direct bound are covered by the lemma composition in DESIGN.md section 5/C04 (linearity + kernel + burst lemma), which is a paper argument over the machine-checked lemmas",
			"Header.CheckIntegrity on Size values other than 12 and 14 (it panics on e.g. 13; not part of the property)",
			"files produced by Encode pass CheckIntegrity: decided here for Files with one message with every field set (fixed values) per hosted message type, both byte orders, both header kinds; for arbitrary field values the same assertion is evaluated in every instance of C05's check"},
		Assumptions: commonAssumptions,
	})
}

func init() {
	reg(&CheckDef{
		ID:   "C03",
		Meta: "fit.Hmeta",
		Jobs: func(tier string, meta map[string]int) []Job {
			js := []Job{job("fit", "H03a")}
			for ti := 0; ti < 17; ti++ {
				js = append(js, msgJobs(meta, "fit", "H03b", "ti", ti)...)
			}
			return js
		},
		MustReach: []string{"C03.filetype.accepted-iff-known", "C03.accessor.matching", "C03.accessor.others-error", "C03.add.appended-once", "C03.add.prefix-kept", "C03.add.single-slot-replaced", "C03.add.others-untouched", "C03.add.stored-equals-message", "C03.add.file-id", "C03.add.file-untouched"},
		Bounds: map[string]interface{}{
			"quick":    "file types: all 256 values; add step: 17 file types x every profile message number (from the tree), container pre-state with L in {0,1,2} messages in every slice (same L for all slices; for L = 0 both nil, as NewFile leaves it, and empty non-nil) and all single slots nil or all set, message = all-invalid value with every integer field arbitrary",
			"thorough": "same",
		},
		Outside: []string{"interleavings of arbitrary length follow from the add step by induction (append at the end of an arbitrary prefix keeps stream order) — paper argument",
			"pre-states whose slices have different lengths or mixed nil/non-nil single slots (the step touches one slot)",
			"string/slice/time/coordinate fields of the routed message are left at their all-invalid value (not havocked)"},
		Assumptions: append([]string{"M-reflect: reflect.ValueOf/Elem/Field/Kind/Type/Interface/Set/Index/Len/IsNil/New/MakeSlice/Addr modelled with documented panics (DESIGN.md Appendix A)"}, commonAssumptions...),
	})
}

func init() {
	reg(&CheckDef{
		ID:   "C20",
		Meta: "fit.H20meta",
		Gen: func() error {
			_, _, err := genC20()
			return err
		},
		Jobs: func(tier string, meta map[string]int) []Job {
			var js []Job
			for ti := 0; ti < meta["ntypes"]; ti++ {
				js = append(js, job("fit", "H20", "ti", ti))
			}
			return js
		},
		MustReach: []string{"C20.constant-prints-its-name", "C20.other-values-print-type-and-number", "constant", "other"},
		Bounds: map[string]interface{}{
			"quick":    "every generated FIT type whose String method lives in types_string.go (list and constants read from go/types of the current tree), receiver symbolic over its full width (all 2^8, 2^16 or 2^32 values)",
			"thorough": "same",
		},
		Outside: []string{"second sentence of the property (the checked-in tables are what the repository's stringer generates): needs the generator run on the type definitions, not a bounded computation",
			"the manually written Bool type (types_man.go) is not a generated type",
			"the decimal rendering inside Type(n) is strconv.FormatInt, kept uninterpreted: the assertion is that the method calls it on the receiver's value"},
		Assumptions: append([]string{"strconv.FormatInt is an uninterpreted function of its argument"}, commonAssumptions...),
	})
}

func init() {
	reg(&CheckDef{
		ID: "C13",
		Jobs: func(tier string, meta map[string]int) []Job {
			js := []Job{job("fit", "H13", "defkind", 0), job("fit", "H13", "defkind", 1), job("fit", "H13", "defkind", 2), job("fit", "H13b")}
			for k := 0; k < 16; k++ {
				js = append(js, job("fit", "H13c", "k", k))
			}
			for k := 1; k < 16; k++ {
				js = append(js, job("fit", "H13d", "k", k, "comp", 0))
				if k <= 3 {
					js = append(js, job("fit", "H13d", "k", k, "comp", 1))
				}
			}
			js = append(js, job("fit", "H13e"))
			for _, ab := range [][2]int{{0, 1}, {1, 0}, {3, 12}, {15, 7}} {
				js = append(js, job("fit", "H13f", "a", ab[0], "b", ab[1]))
			}
			return js
		},
		MustReach: []string{"C13.def.replaces-its-slot", "C13.def.other-slots-untouched", "C13.data.undefined-slot-is-error", "C13.data.consumed-by-selected-slot", "C13.data.routed-by-selected-slot", "C13.data.definitions-never-written", "C13.dev.records-read-with-their-own-definition", "C13.dev.first-slot-descriptors-kept", "C13.redef.consumed-by-latest-definition", "C13.redef.slot-holds-exactly-the-latest-definition", "C13.chain.definitions-do-not-survive-into-the-next-file", "C13.first.undefined-slot-is-error", "C13.order.each-record-read-in-its-own-definitions-byte-order"},
		Bounds: map[string]interface{}{
			"quick":    "one record (all 256 header bytes, arbitrary record bytes) through the real decodeFileData loop from a state where all 16 slots hold pairwise distinguishable definitions (different message, record length 2..17, alternating byte order) except at most one nil slot (17 choices); definition records carry one of three bodies (with/without one developer field): a different message, the slot's own layout with the opposite byte order, or the slot's definition verbatim; plus (H13b) two developer-field definitions for two local types (every slot and its two neighbours by bit flip, developer field sizes 1-4, both orders) followed by records of both; plus (H13c) every slot redefined with 0..2 fields of 1..3 bytes, either byte order, with/without 0..2 developer fields of 1..3 bytes, followed by a record of that slot and one of the next slot (arbitrary bytes); plus (H13d) a chain of two files where the second uses a local type (1..15, also through compressed headers for 1..3) only the first defines",
			"thorough": "same",
		},
		Outside: []string{"arbitrary interleavings follow by induction on the one-record step (slot contents only change by replacement; other slots pointer-identical) — paper argument",
			"pre-states with more than one undefined slot; definition bodies other than the fixed one (C01/C02 own definition parsing)"},
		Assumptions: commonAssumptions,
	})
	reg(&CheckDef{
		ID:   "C15",
		Meta: "fit.Hmeta",
		Jobs: func(tier string, meta map[string]int) []Job {
			js := msgJobs(meta, "fit", "H15a")
			js = append(js, msgJobs(meta, "fit", "H15b")...)
			js = append(js, job("fit", "H15c"), job("fit", "H15d"))
			return js
		},
		MustReach: []string{"C15.entry.gotype", "C15.entry.constructor-invalid", "C15.entry.size-fits", "C15.walk.bijection", "C15.known.constructor", "C15.container.member-known", "listed", "unlisted", "known", "unknown"},
		Bounds: map[string]interface{}{
			"quick":    "none: every message number the tree's knownMsgNums lists x all 256 field numbers (symbolic), all 65536 message numbers (symbolic) for table coverage, every container member of the 17 file types",
			"thorough": "same",
		},
		Outside: []string{"'field numbers map to the struct fields that the declared SDK profile version assigns': no 21.115 workbook is in the repository, so there is no oracle",
			"'no profile-driven reflection access can fail': decided by C01 (decoder) and C05 (encoder) on top of these table facts"},
		Assumptions: append([]string{"package initialisers (the generated tables, constructors, reflect.TypeOf list) are interpreted concretely from the SSA of the current tree", "M-reflect"}, commonAssumptions...),
	})
}

func init() {
	reg(&CheckDef{
		ID:   "C02",
		Rotate: map[string]int{"fit.H02a": 2, "fit.H02b": 2},
		Meta: "fit.Hmeta",
		Jobs: func(tier string, meta map[string]int) []Job {
			allstr := 0
			if tier == "thorough" {
				allstr = 1
			}
			js := msgJobs(meta, "fit", "H02a", "allstr", allstr)
			maxb := 3
			if tier == "thorough" {
				maxb = 8
			}
			for menu := 0; menu <= 4; menu++ {
				for first := 0; first <= 1; first++ {
					js = append(js, msgJobs(meta, "fit", "H02b", "maxb", maxb, "menu", menu, "first", first)...)
				}
			}
			js = append(js, job("fit", "Hwide", "extra", 0, "hrlast", 0, "chunk", 0), job("fit", "Hwide", "extra", 0, "hrlast", 1, "chunk", 0), job("fit", "H02d"))
			return js
		},
		MustReach: []string{"C02.compatible-definition-accepted", "C02.compatible-record-decodes", "C02.value.scalar", "C02.value.time", "C02.value.localtime", "C02.value.lat", "C02.value.lng", "C02.value.string", "C02.value.string-array", "C02.value.array-element", "C02.absent-fields-invalid", "compared", "C02.multi.definition-accepted", "C02.multi.record-decodes", "C02.multi.absent-fields-invalid", "C02.multi.consumed", "compared-multi", "C02.second-record-decodes", "compared-second", "C02.wide.values", "C02.skip.following-record-undisturbed"},
		Bounds: map[string]interface{}{
			"quick":    "single-field definitions: every profile message x every listed field x every compatible (base type, size) pair x both byte orders x all data bytes, compared with a reference decoder, each followed by a second record under the same definition that carries the invalid value; string sizes restricted to {0..8,16,127,128,254,255}; string arrays: sizes 0..6 fully symbolic, larger sizes with one terminator at any position; two-field definitions (H02b): a disturber (time/coordinate field at any compatible width, unlisted field of 1-4 bytes, developer field of 1-4 bytes, string of 1-3 bytes, array of 1-2 elements) before or after any known scalar field among the message's first 3 struct fields at its profile type, both byte orders, all data bytes",
			"thorough": "as quick with every string size 0..255, two terminators in string arrays of up to 24 bytes, and the first 8 struct fields as neighbours in H02b",
		},
		Outside: []string{"definitions with more than two fields (plus one developer field) and whole files",
			"definitions the validator accepts that are not 'compatible' in the property's sense (e.g. uint8 with size 2 into a uint16 slot) have no single denoted value; C01 covers their safety",
			"local timestamps are compared with no reference time set (the reference cases are C12's)"},
		Assumptions: append([]string{"compatibility guard vCompat (harness/fit/c02.go): canonical base-type byte; strings into string fields at any size; arrays with the profile's own base type and a positive multiple of its size; scalars with size == base size <= profile size and equal type or integer types of equal signedness", "M-reflect"}, commonAssumptions...),
	})
}

// encJobs enumerates (file type, hosted message, field subset, byte order,
// header CRC) instances for the encoder harness.
func encJobs(tier string, meta map[string]int) []Job {
	var js []Job
	symoff := 0
	if tier == "thorough" {
		symoff = 1
	}
	add := func(ti, gmn, fi, fj, two, big, crc int) {
		js = append(js, job("fit", "H05", "ti", ti, "gmn", gmn, "fi", fi, "fj", fj, "two", two, "big", big, "crc", crc, "symoff", symoff, "hist", 0))
	}
	slot := func(ti, gmn int) {
		nf := meta[fmt.Sprintf("nf_%d", gmn)]
		for fi := 0; fi < nf; fi++ {
			for big := 0; big <= 1; big++ {
				add(ti, gmn, fi, -1, 0, big, (fi+big)%2)
			}
			if fi+1 < nf {
				add(ti, gmn, fi, fi+1, 0, fi%2, 1)       // adjacent pair in one message
				add(ti, gmn, fi, fi+1, 1, (fi+1)%2, fi%2) // two messages, different fields: union definition
			}
		}
		for big := 0; big <= 1; big++ {
			add(ti, gmn, -1, -1, 0, big, 1-big) // every field set
		}
		add(ti, gmn, -2, -1, 0, gmn%2, ti%2) // no field set: the message as its constructor returns it
		// the same after an Encode that failed part-way
		js = append(js, job("fit", "H05", "ti", ti, "gmn", gmn, "fi", -1, "fj", -1, "two", 0, "big", gmn%2, "crc", 1, "symoff", symoff, "hist", 1))
	}
	for ti := 0; ti < 17; ti++ {
		for i := 0; i < meta[fmt.Sprintf("nhost_%d", ti)]; i++ {
			slot(ti, meta[fmt.Sprintf("host_%d_%d", ti, i)])
		}
		slot(ti, 0) // file_id in every file type
	}
	slot(3, 49)  // file_creator
	slot(3, 162) // timestamp_correlation
	// several messages in two slice slots of one container
	for ti := 0; ti < 17; ti++ {
		n := meta[fmt.Sprintf("nhost_%d", ti)]
		for sa := 0; sa < n; sa++ {
			for sb := sa + 1; sb < n; sb++ {
				if meta[fmt.Sprintf("hostslice_%d_%d", ti, sa)] != 1 || meta[fmt.Sprintf("hostslice_%d_%d", ti, sb)] != 1 {
					continue
				}
				for v := 0; v < 2; v++ {
					js = append(js, job("fit", "H05m", "ti", ti, "sa", sa, "sb", sb, "fi", 1+v, "fj", 2-v, "fk", 1+2*v, "big", (sa+sb+v)%2, "crc", (sa+v)%2, "symoff", symoff))
				}
			}
		}
	}
	return js
}

func init() {
	encBounds := "one message (or two, for the union-definition case) per File, plus Files with three messages in one slice slot (two setting one field, the last another) and one message in a second slice slot, for every pair of slice slots of every container; per instance one struct field or one adjacent pair set to arbitrary non-invalid values (integers over their full width, valid coordinates, whole-second times in [epoch+1, epoch+2^32-2], local times in 13 representative zone offsets (thorough: any offset within +-14 h), ASCII strings of up to two characters that fit, arrays of 1-2 elements), or every field set at once to fixed values (structure of the full definition); instances: 17 file types x every hosted message (table read from the tree) x every field x both byte orders x headers with and without CRC"
	reg(&CheckDef{
		ID:        "C05",
		Meta:      "fit.Hmeta",
		Jobs:      encJobs,
		MustReach: []string{"C05.header.data-size", "C05.header.crc", "C05.file.crc", "C05.def.size-multiple", "C05.data.defined-before", "C05.stream.exact", "C05.wire.value", "C05.wire.string", "C05.file.header-crc-updated", "C05.file.crc-updated", "C05.records.count", "encoded", "C04.encode-output-passes-checkintegrity", "C05.multi.record-counts", "C05.wire.unset-field-invalid", "encoded-multi"},
		Bounds:    map[string]interface{}{"quick": encBounds, "thorough": encBounds},
		Outside: []string{"Files with more than two messages or with several populated container slots at once", "strings longer than two characters and non-ASCII strings; arrays longer than two elements",
			"the independent parser compares CRCs with dyncrc16.Checksum, which C14 shows to be CRC-16/ARC"},
		Assumptions: append([]string{"M-reflect, M-binary-write (encoding/binary.Write modelled as fixed-size little/big-endian serialisation by dynamic type; bytes.Buffer executed from the standard library's SSA)"}, commonAssumptions...),
	})
	reg(&CheckDef{
		ID:        "C06",
		Meta:      "fit.Hmeta",
		Jobs:      encJobs,
		MustReach: []string{"C06.decode.succeeds", "C06.file-type", "C06.message-count", "C06.field.value", "C06.field.time", "C06.field.coordinate", "C06.field.array-prefix", "C06.no-other-messages", "roundtrip"},
		Bounds:    map[string]interface{}{"quick": encBounds, "thorough": encBounds},
		Outside: []string{"Files with more than two messages; local timestamps in a non-UTC zone; strings longer than two characters; arrays longer than two elements",
			"fields that are component destinations are compared under C18's rule, not here"},
		Assumptions: append([]string{"M-reflect, M-binary-write"}, commonAssumptions...),
	})
}

// ---------------------------------------------------------------- mutants

type Mutant struct {
	ID       string `json:"id"`
	Property string `json:"property"`
	File     string `json:"file"`
	Old      string `json:"old"`
	New      string `json:"new"`
	Note     string         `json:"note,omitempty"`
	Filter   map[string]int `json:"filter,omitempty"`
}

func loadMutants() []Mutant {
	data, err := os.ReadFile(filepath.Join(verifRoot(), "mutants.json"))
	if err != nil {
		return nil
	}
	var ms []Mutant
	if err := json.Unmarshal(data, &ms); err != nil {
		fmt.Fprintln(os.Stderr, "mutants.json:", err)
		os.Exit(2)
	}
	return ms
}

func loadMutantOverlay(id string) map[string][]byte {
	for _, m := range loadMutants() {
		if m.ID != id {
			continue
		}
		p := filepath.Join(repoRoot(), m.File)
		src, err := os.ReadFile(p)
		if err != nil {
			fmt.Fprintln(os.Stderr, "mutant:", err)
			os.Exit(2)
		}
		if strings.Count(string(src), m.Old) != 1 {
			fmt.Fprintf(os.Stderr, "mutant %s: pattern occurs %d times in %s\n", id, strings.Count(string(src), m.Old), m.File)
			os.Exit(2)
		}
		return map[string][]byte{p: []byte(strings.Replace(string(src), m.Old, m.New, 1))}
	}
	fmt.Fprintln(os.Stderr, "unknown mutant", id)
	os.Exit(2)
	return nil
}

// selftestMain applies every seed mutant of mutants.json (through the
// overlay: /repo is never touched) and expects the property's quick check to
// report a violation.
func selftestMain(args []string) int {
	want := map[string]bool{}
	for _, a := range args {
		want[a] = true
	}
	self, _ := os.Executable()
	type row struct {
		ID, Property, Result, Note string
		Seconds                    float64
	}
	var rows []row
	escaped := 0
	for _, m := range loadMutants() {
		if len(want) > 0 && !want[m.Property] && !want[m.ID] {
			continue
		}
		t0 := time.Now()
		cmd := exec.Command(self, "check", m.Property, "quick", "--mutant", m.ID)
		var flt []string
		for k, v := range m.Filter {
			flt = append(flt, fmt.Sprintf("%s=%d", k, v))
		}
		cmd.Env = append(os.Environ(), "GOSYM_JOBFILTER="+strings.Join(flt, ","), "GOSYM_SELFTEST=1")
		out, _ := cmd.CombinedOutput()
		rc := cmd.ProcessState.ExitCode()
		res := "ESCAPED"
		switch {
		case rc == 1 && strings.Contains(string(out), "VIOLATION property="+m.Property):
			res = "killed"
		case rc == 2:
			res = "inconclusive"
			if strings.Contains(string(out), "package error") {
				res = "does-not-compile"
			}
		}
		if res != "killed" {
			escaped++
			tail := string(out)
			if len(tail) > 600 {
				tail = tail[len(tail)-600:]
			}
			fmt.Printf("--- %s output tail:\n%s\n", m.ID, tail)
		}
		rows = append(rows, row{m.ID, m.Property, res, m.Note, time.Since(t0).Seconds()})
		fmt.Printf("%-24s %-4s %-16s %6.1fs  %s\n", m.ID, m.Property, res, time.Since(t0).Seconds(), m.Note)
	}
	b, _ := json.MarshalIndent(rows, "", " ")
	os.MkdirAll(filepath.Join(verifRoot(), "work"), 0o755)
	os.WriteFile(filepath.Join(verifRoot(), "work", "selftest.json"), b, 0o644)
	fmt.Printf("selftest: %d mutants, %d not killed\n", len(rows), escaped)
	if escaped > 0 {
		return 1
	}
	return 0
}

func init() {
	reg(&CheckDef{
		ID:   "C07",
		Meta: "fit.Hmeta",
		Jobs: func(tier string, meta map[string]int) []Job {
			mode := 0
			if tier == "thorough" {
				mode = 1
			}
			var js []Job
			seen := map[int]bool{}
			for ti := 0; ti < 17; ti++ {
				for i := 0; i < meta[fmt.Sprintf("nhost_%d", ti)]; i++ {
					g := meta[fmt.Sprintf("host_%d_%d", ti, i)]
					if seen[g] && tier != "thorough" {
						continue // quick: each message once, in the first file type that hosts it
					}
					seen[g] = true
					js = append(js, job("fit", "H07a", "ti", ti, "gmn", g, "mode", mode))
				}
			}
			js = append(js, job("fit", "H07a", "ti", 3, "gmn", 0, "mode", mode), job("fit", "H07a", "ti", 3, "gmn", 49, "mode", mode), job("fit", "H07a", "ti", 3, "gmn", 162, "mode", mode),
				job("fit", "H07a", "ti", 3, "gmn", 206, "mode", mode), job("fit", "H07a", "ti", 3, "gmn", 207, "mode", mode))
			js = append(js, job("fit", "H07b"))
			return js
		},
		MustReach: []string{"C07.values.scalar", "C07.values.array-up-to-profile-length", "C07.values.string-up-to-profile-length", "C07.encode-accepts-decoded", "C07.output-passes-checkintegrity", "C07.output-decodes", "C07.second-encode", "C07.fixpoint", "C07.counts", "roundtrip", "C07.header-versions-kept", "accepted", "rejected"},
		Bounds: map[string]interface{}{
			"quick":    "one message produced by the real record parser from any accepted single-field definition of a string or array field (every hosted message, both byte orders, arbitrary data) stored in a File as Decode stores it; strings: sizes 1-3 fully symbolic and sizes L-1, L, L+1 around the profile length L with an ASCII prefix and three arbitrary final bytes; arrays: up to 4 elements, the profile length, one more, and 255 bytes; then Encode, CheckIntegrity, Decode, Encode, Decode (the two encodings in opposite byte orders); plus (H07b) a small concrete file whose header protocol-version and profile-version bytes are arbitrary, 12- or 14-byte header, header CRC computed or 0: whatever Decode accepts is re-encoded in either byte order",
			"thorough": "as quick for every field (scalars included) and every hosting file type",
		},
		Outside: []string{"inputs with several records or several fields per definition; whole device files; strings with more than three non-ASCII bytes"},
		Assumptions: append([]string{"M-reflect, M-binary-write; unicode/utf8 executed from the standard library's SSA"}, commonAssumptions...),
	})
}

func kindSeqs(n int) []int {
	total := 1
	for i := 0; i < n; i++ {
		total *= 10 // vNumKinds in harness/fit/stream.go
	}
	var r []int
	for c := 0; c < total; c++ {
		if n >= 3 && c%3 != 0 {
			continue // thorough tier: every third of the 1000 orders (3 and 10 are coprime: every kind occurs in every position)
		}
		r = append(r, c)
	}
	return r
}

func init() {
	streamModel := "streams of the harness's FIT stream model: an activity file (14-byte header and a little-endian file_id definition with two fields, or 12-byte header and a big-endian file_id definition with three fields) with a file_id record, eight definitions (record with heart rate only for compressed-timestamp headers, record little-endian with timestamp, unknown message with arbitrary unknown number, record big-endian with an arbitrary unlisted field, record with two developer fields, lap, activity, record with one developer field defined last) one plain record, and then n data records of any of 10 kinds (record, unknown message, record with unlisted field, two-developer-field record, compressed-timestamp record, lap, activity with timestamp and local timestamp, compressed-timestamp header on the unknown message, compressed-timestamp header on a second file_id record, one-developer-field record) in every order, all field bytes arbitrary"
	reg(&CheckDef{
		ID: "C10",
		Jobs: func(tier string, meta map[string]int) []Job {
			var js []Job
			n := 2
			if tier == "thorough" {
				n = 3
			}
			for _, k := range kindSeqs(n) {
				for _, chunk := range []int{0, 1, 3, 7} {
					js = append(js, job("fit", "H10a", "n", n, "kinds", k, "crc", (k+chunk)%2, "chunk", chunk))
					js = append(js, job("fit", "H10b", "n", n, "kinds", k, "chunk", chunk))
				}
			}
			for _, extra := range []int{0, 17} {
				for _, chunk := range []int{0, 1, 7, 5000} {
					js = append(js, job("fit", "Hwide", "extra", extra, "hrlast", (chunk+extra)%2, "chunk", chunk))
				}
			}
			return js
		},
		MustReach: []string{"C10.decode.consumes-exactly-the-frame", "C10.decode.never-requests-beyond-frame", "C10.checkintegrity.consumes-exactly-the-frame", "C10.decodeheader.same-header", "C10.headerandfileid.same-fileid", "C10.chained.one-file-per-input", "C10.chained.equals-decoding-alone", "C10.wide.headerandfileid-same-as-decode", "C10.wide.consumes-exactly-the-frame"},
		Bounds: map[string]interface{}{
			"quick":    streamModel + "; n = 2; the frame is followed by three arbitrary bytes; reader chunk sizes 1, 3, 7 and unlimited; chained: two such files; Hwide: a stream at the size limits of the format (file_id record with 0 or 17 unlisted 255-byte fields, i.e. ending beyond the 4096-byte buffer; a 90-field definition; 5 developer fields of 255 bytes) through every entry point with read sizes 1, 7, 5000 and unlimited",
			"thorough": "as quick with n = 3 (every third of the 1000 kind orders)",
		},
		Outside:     []string{"streams outside the model (device files), chunk patterns that vary within a stream, chains of more than two files, reads larger than the 4096-byte internal buffer"},
		Assumptions: append([]string{"reader = harness vReader honouring the io.Reader contract (n = 0 only with an error)"}, commonAssumptions...),
	})
	reg(&CheckDef{
		ID: "C11",
		Rotate: map[string]int{"fit.H11a": 2},
		Jobs: func(tier string, meta map[string]int) []Job {
			var js []Job
			n := 2
			if tier == "thorough" {
				n = 3
			}
			for _, k := range kindSeqs(n) {
				for _, chunk := range []int{0, 1, 3} {
					for fault := 0; fault <= 1; fault++ {
						if tier != "thorough" && (chunk*2+fault)%6 != k%6 && !(chunk == 3 && (3*2+fault)%6 == k%6) {
							// quick: every sequence with one (chunk, fault) combination, rotating
							ci := map[int]int{0: 0, 1: 1, 3: 2}[chunk]
							if (ci*2+fault) != k%6 {
								continue
							}
						}
						we := (k / 6) % 2
						js = append(js, job("fit", "H11a", "n", n, "kinds", k, "crc", (k+chunk)%2, "chunk", chunk, "fault", fault, "we", we))
						if tier == "thorough" {
							js = append(js, job("fit", "H11a", "n", n, "kinds", k, "crc", (k+chunk)%2, "chunk", chunk, "fault", fault, "we", 1-we))
						}
					}
				}
			}
			for mode := 0; mode <= 2; mode++ {
				for _, chunk := range []int{0, 1, 3} {
					js = append(js, job("fit", "H11b", "mode", mode, "chunk", chunk))
				}
			}
			return js
		},
		MustReach: []string{"C11.decode.error-on-cut", "C11.decode.partial-content-is-the-completed-prefix", "C11.checkintegrity.error-on-cut", "C11.decodeheader.error-on-cut", "C11.headerandfileid.error-on-cut", "C11.chained.error-on-cut-in-first-file", "C11.chain.clean-end-on-boundary", "C11.chain.clean-end-after-second-file", "C11.chain.cut-inside-second-file-is-error", "C11.chain.fault-is-error", "C11.chain.stray-byte-is-error"},
		Bounds: map[string]interface{}{
			"quick":    streamModel + "; n = 2; every cut offset or every fault offset inside the frame (case-split by the solver) with chunk size 1, 3 or unlimited (one combination per sequence, rotating); chain boundary: file followed by every prefix of a second file, by a fault at every offset of it, or by one arbitrary stray byte",
			"thorough": "as quick with n = 3 (every third of the 1000 kind orders) and the full (chunk, fault) grid",
		},
		Outside:     []string{"streams outside the model; readers that violate the io.Reader contract; faults that are not persistent"},
		Assumptions: append([]string{"reader = harness vReader: clean io.EOF at the cut, or a persistent non-EOF error from the fault offset on; the error is delivered on its own call or together with the last bytes (half of the instances each in quick, both in thorough)"}, commonAssumptions...),
	})
	reg(&CheckDef{
		ID: "C16",
		Rotate: map[string]int{"fit.H16a": 2},
		Jobs: func(tier string, meta map[string]int) []Job {
			var js []Job
			nc := 2
			if tier == "thorough" {
				nc = 3
			}
			for _, k := range kindSeqs(nc) {
				js = append(js, job("fit", "H16a", "n", nc, "kinds", k, "crc", k%2, "chunk", []int{0, 1, 3}[k%3], "cut", 0))
				if tier == "thorough" || k%3 == 0 {
					js = append(js, job("fit", "H16a", "n", nc, "kinds", k, "crc", (k+1)%2, "chunk", []int{0, 1, 3}[(k+1)%3], "cut", 1))
				}
			}
			js = append(js, job("fit", "H16b", "n", 1), job("fit", "H16b", "n", 2), job("fit", "H16c"), job("fit", "H16d"))
			if tier == "thorough" {
				js = append(js, job("fit", "H16b", "n", 3))
			}
			return js
		},
		MustReach: []string{"C16.options.same-error", "C16.options.same-bytes-consumed", "C16.options.same-messages", "C16.fields.exact", "C16.messages.exact", "C16.fields.absent-without-option", "C16.fields.sorted", "C16.messages.sorted", "C16.fields.count-is-number-of-records", "C16.messages.count-is-number-of-records", "C16.fields.every-key-listed-once", "C16.fields.completed-file-id-record-is-accounted-for", "failed-after-file-id"},
		Bounds: map[string]interface{}{
			"quick":    streamModel + "; n = 2, uncut (every sequence) and cut at every offset after the file_id record (every third sequence); all 8 option combinations (symbolic); counts and order of the exported lists (H16b): up to 2 rounds of (definition of one of 6 known messages, two with numbers >= 256, with an arbitrary unlisted field number + record; definition of an arbitrary unknown message + record) through the real record loop, keys may repeat, every map iteration order; (H16c) a file_id record with an arbitrary file type byte and an arbitrary unlisted field: for rejected file types the lists returned with the error account for the file_id record",
			"thorough": "as quick with n = 3 (every third of the 1000 kind orders) and 3 rounds",
		},
		Outside:     []string{"streams outside the model; more than one distinct unknown message number / unlisted field number per stream (the model has one of each, with arbitrary values)"},
		Assumptions: append([]string{"Logger = harness no-op type; map iteration order is a symbolic permutation in H16b; sort.Sort executed from the standard library's SSA"}, commonAssumptions...),
	})
}

func init() {
	reg(&CheckDef{
		ID:   "C08",
		Rotate: map[string]int{"fit.H08d": 2},
		Meta: "fit.Hmeta",
		Jobs: func(tier string, meta map[string]int) []Job {
			var js []Job
			n := 2
			if tier == "thorough" {
				n = 3
			}
			for _, k := range kindSeqs(n) {
				js = append(js, job("fit", "H08a", "n", n, "kinds", k))
			}
			for _, k := range kindSeqs(n) {
				if tier == "thorough" || k%2 == 0 {
					j := job("fit", "H08d", "n", n, "kinds", k)
					j.Prio = 1
					js = append(js, j)
				}
			}
			js = append(js, job("fit", "H08b"), job("fit", "H08c"))
			for _, k := range kindSeqs(n) {
				if k%5 == 0 || tier == "thorough" {
					js = append(js, job("fit", "H08g", "n", n, "kinds", k))
				}
			}
			js = append(js, hostJobs(meta, "H08e", tier == "thorough")...)
			js = append(js, job("fit", "Hwide8"))
			for i, j := range msgJobs(meta, "fit", "H08f") {
				if tier == "thorough" || i%4 == 0 {
					j.Prio = 1
					js = append(js, j)
				}
			}
			return js
		},
		MustReach:      []string{"C08.history.definition-verdict-independent-of-history", "C08.frame.no-state-survives-a-call", "C08.frame.accumulators-are-per-call", "C08.history.decode-independent-of-history", "C08.encode.identical-bytes-for-identical-files", "C08.encode.output-decodes", "C08.sequence.decode-independent-of-history", "C08.sequence.encode-independent-of-history", "C08.frame.encode-writes-no-shared-object", "C08.sequence.encode-independent-of-earlier-encodes"},
		NoNativeReplay: map[string]bool{"C08.frame.accumulators-are-per-call": true, "C08.frame.no-state-survives-a-call": true, "C08.frame.encode-writes-no-shared-object": true},
		Bounds: map[string]interface{}{
			"quick":    "shared-write frame: Decode (with both counting options), DecodeChained, CheckIntegrity, DecodeHeader, DecodeHeaderAndFileID and Encode on every model stream with n = 2 records plus a stream with the accumulated record sources; call sequences: Decode(B), then Decode/Encode/CheckIntegrity/DecodeChained on a stream A with two activity messages (arbitrary timestamps and local timestamps), then Decode(B) again, for every second model stream B with n = 2 (all of them in thorough), results and re-encoded bytes compared; (H08g) a stream whose first time value is a local timestamp followed by compressed-timestamp records, decoded fresh, after decodes of a model stream, and as the second file of a chain (every fifth model stream); history independence: one record with arbitrary valid accumulated sources decoded from an arbitrary state of the three package-level accumulators (any history's effect is some value of them) versus the fresh state; Encode determinism: two records with different fields under every map iteration order; Encode on hand-built Files: per profile message (first hosting file type) a File with every field set and strings of 2 arbitrary ASCII characters is encoded, then the same File with strings of 0..3 and of 0..5 characters, then the first again: no pre-existing object written, identical bytes (also after an Encode that failed part-way); Hwide8: two decodes of streams with a 90-field definition; H08f: the verdict of validateFieldDef on an arbitrary definition of a profile message (every fourth message) is the same before and after the same definition was validated for an arbitrary unknown message number",
			"thorough": "as quick with n = 3 (every third of the 1000 kind orders), every hosting file type, H08f for every message",
		},
		Outside: []string{"'equal to what a fresh process returns' is taken as 'equal to the run from the interpreted initial state of the package'", "json.go's buffer pool is not on any decode/encode path (no write to it is recorded) and is not claimed",
			"the two frame assertions are facts about the engine's heap (writes to objects that pre-exist the call) and have no native counterpart; their observable consequence is replayed natively through H08b"},
		Assumptions: append([]string{"an object is 'shared' when it was allocated by package initialisation or is a package-level variable", "writes through goroutine-safe containers (sync.Map, sync.Pool) or made while a sync.Mutex/RWMutex is held or inside sync.Once.Do are synchronised and are not counted by the frame assertions (a correct cache must not raise an alarm); whether such state changes results is decided by the history-independence assertions (H08b, H08d, H08e, H08f, Hwide8)"}, commonAssumptions...),
	})
	reg(&CheckDef{
		ID:    "C09",
		Meta:  "fit.Hmeta",
		Level: "other",
		Jobs: func(tier string, meta map[string]int) []Job {
			var js []Job
			n := 2
			if tier == "thorough" {
				n = 3
			}
			for _, k := range kindSeqs(n) {
				js = append(js, job("fit", "H09", "n", n, "kinds", k))
			}
			js = append(js, job("fit", "H09acc"))
			js = append(js, hostJobs(meta, "H09e", tier == "thorough")...)
			js = append(js, job("fit", "Hwide8"))
			return js
		},
		MustReach:      []string{"C09.no-shared-object-is-written", "C09.same-result-as-alone", "C09.race-free"},
		NoNativeReplay: map[string]bool{"C09.no-shared-object-is-written": true, "C09.pooled-object-used-after-put": true, "C09.object-written-by-both-calls": true},
		RaceID:         "C09.race-free",
		Explanation:    "The engine has no thread interleavings. The claim is reduced to a non-interference premise that is decidable here: (P) within the stated bounds no decoding/encoding entry point writes an object that exists before the call (package-level variables and everything package initialisation allocated), decided by symbolic execution with write provenance over all stream contents of the model. (P) implies that any interleaving of calls on independent readers, writers and Files is race-free and returns what each call returns alone (disjoint-state argument, stated not machine-checked; standard-library internals are assumed goroutine-safe as documented). Every path's model is additionally replayed natively with the two calls in separate goroutines under the Go race detector; where (P) fails (the package-level accumulators) the native replay must show a detector report before the finding is printed.",
		Bounds: map[string]interface{}{
			"quick":    "pairs of calls: Decode+Encode+CheckIntegrity on one model stream (n = 2 records, every kind order, arbitrary bytes) against Decode+DecodeChained on another; plus the accumulator exception on two concrete streams; plus two concurrent Encodes of hand-built Files hosting the same message with every field set (per profile message, first hosting file type)",
			"thorough": "as quick with n = 3 (every third of the 1000 kind orders) and every hosting file type",
		},
		Outside:     []string{"interleavings themselves (no schedule is explored symbolically); more than two concurrent calls; streams outside the model"},
		Assumptions: append([]string{"disjoint-state argument from (P) to race freedom is a paper argument",
			"M-sync-pool: sync.Pool is a LIFO list per pool (Get returns the most recently Put object, else New()); its own bookkeeping is goroutine-safe and not a shared write; an access to an object (or anything reachable from it) between Put and the Get that hands it out again is reported as C09.pooled-object-used-after-put (a fact about the engine's heap, no native counterpart)"}, commonAssumptions...),
	})
}
