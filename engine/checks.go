package main

// Check definitions: which harness instances decide which property.

import (
	"encoding/json"
	"fmt"
	"os"
	"path/filepath"
	"strings"
)

type CheckDef struct {
	ID             string
	Level          string
	Meta           string // harness whose vOut values parameterise the job list
	Jobs           func(tier string, meta map[string]int) []Job
	MustReach      []string
	Bounds         map[string]interface{}
	Outside        []string
	Assumptions    []string
	NoNativeReplay map[string]bool
	Explanation    string
}

var checkDefs = map[string]*CheckDef{}

func reg(d *CheckDef) {
	if d.Level == "" {
		d.Level = "model_checking"
	}
	checkDefs[d.ID] = d
}

var commonAssumptions = []string{
	"go/ssa (x/tools v0.29.0) is a faithful lowering of the Go source in /repo's working tree; the Go compiler and runtime implement the same semantics; int is 64 bit",
	"z3 5.1.0 (z3-new) is sound; any (error line, unknown answer, unwinding failure or unsupported instruction makes the run inconclusive (exit 2), never green",
	"symbolic inputs are bit-vectors of the Go width (wrapping arithmetic); floats use the SMT FloatingPoint theory with RNE, float->int conversion RTZ",
}

func job(pkg, h string, kv ...interface{}) Job {
	j := Job{Pkg: pkg, Harness: h, Params: map[string]int{}}
	for i := 0; i+1 < len(kv); i += 2 {
		j.Params[kv[i].(string)] = kv[i+1].(int)
	}
	return j
}

func init() {
	reg(&CheckDef{
		ID: "C14",
		Jobs: func(tier string, meta map[string]int) []Job {
			js := []Job{job("dyncrc16", "H14a"), job("dyncrc16", "H14c")}
			for l := 0; l <= 8; l++ {
				js = append(js, job("dyncrc16", "H14b", "L", l))
			}
			maxD := 2
			if tier == "thorough" {
				maxD = 3
			}
			for l := 1; l <= maxD; l++ {
				js = append(js, job("dyncrc16", "H14d", "L", l))
			}
			return js
		},
		MustReach: []string{"C14.step", "C14.split", "C14.residue", "C14.checksum", "C14.reset", "C14.checksum.ref"},
		Bounds: map[string]interface{}{
			"quick":    "transition function (updateByte == bit-serial CRC-16/ARC step) and residue rule: none, all 2^16 states x 2^8 bytes; streaming interface (Write/Checksum/New/Reset == left fold of updateByte, any split point, arbitrary start state): data length <= 8; direct comparison with the bit-serial reference over whole data: length <= 2",
			"thorough": "as quick; direct comparison with the bit-serial reference: length <= 3",
		},
		Outside:     []string{"streaming over more than the stated number of bytes is covered only by induction on the per-byte step (H14a) — a paper argument"},
		Assumptions: commonAssumptions,
	})
}

// ---------------------------------------------------------------- mutants

type Mutant struct {
	ID       string `json:"id"`
	Property string `json:"property"`
	File     string `json:"file"`
	Old      string `json:"old"`
	New      string `json:"new"`
	Note     string `json:"note,omitempty"`
}

func loadMutants() []Mutant {
	data, err := os.ReadFile(filepath.Join(verifRoot(), "mutants.json"))
	if err != nil {
		return nil
	}
	var ms []Mutant
	if err := json.Unmarshal(data, &ms); err != nil {
		fmt.Fprintln(os.Stderr, "mutants.json:", err)
		os.Exit(2)
	}
	return ms
}

func loadMutantOverlay(id string) map[string][]byte {
	for _, m := range loadMutants() {
		if m.ID != id {
			continue
		}
		p := filepath.Join(repoRoot(), m.File)
		src, err := os.ReadFile(p)
		if err != nil {
			fmt.Fprintln(os.Stderr, "mutant:", err)
			os.Exit(2)
		}
		if strings.Count(string(src), m.Old) != 1 {
			fmt.Fprintf(os.Stderr, "mutant %s: pattern occurs %d times in %s\n", id, strings.Count(string(src), m.Old), m.File)
			os.Exit(2)
		}
		return map[string][]byte{p: []byte(strings.Replace(string(src), m.Old, m.New, 1))}
	}
	fmt.Fprintln(os.Stderr, "unknown mutant", id)
	os.Exit(2)
	return nil
}

func selftestMain(args []string) int { return 2 }
