package main

// One long-lived SMT solver process (z3 -in), driven over a pipe with an
// assertion stack mirroring the current path condition.

import (
	"bufio"
	"fmt"
	"io"
	"os"
	"os/exec"
	"regexp"
	"strconv"
	"strings"
	"time"
)

type SolverStats struct {
	Queries  int
	Sat      int
	Unsat    int
	Unknown  int
	Errors   int
	Seconds  float64
	Restarts int
	MaxQuery float64
	Slow     int // queries that needed the non-incremental tactic
	Hung     int // fast incremental attempts whose process hung or died (decided by a fresh process instead)
}

type Solver struct {
	bin       []string
	timeoutMs int
	cmd       *exec.Cmd
	in        io.WriteCloser
	out       *bufio.Reader
	lines     chan string
	stack     []*Term
	defined   map[*Term]bool
	declVar   map[*Term]bool
	declUF    map[string]bool
	seq       int
	Stats     SolverStats
	log       *os.File
	lastErr   string
	fastMs    int
	curMs     int
	rawExtra  string
	rawTerms  []*Term
	dirty     bool
	sinceStart   int
	restartEvery int
}

func (s *Solver) setTimeout(ms int) {
	if s.curMs != ms {
		s.curMs = ms
		s.send(fmt.Sprintf("(set-option :timeout %d)", ms))
	}
}

func NewSolver(bin []string, timeoutMs int) *Solver {
	s := &Solver{bin: bin, timeoutMs: timeoutMs, fastMs: 200, restartEvery: 3000}
	if v := os.Getenv("GOSYM_FASTMS"); v != "" {
		s.fastMs, _ = strconv.Atoi(v)
	}
	if v := os.Getenv("GOSYM_RESTART"); v != "" {
		s.restartEvery, _ = strconv.Atoi(v)
	}
	if p := os.Getenv("GOSYM_SMTLOG"); p != "" {
		f, _ := os.Create(fmt.Sprintf("%s.%d", p, os.Getpid()))
		s.log = f
	}
	s.start()
	return s
}

func (s *Solver) start() {
	s.cmd = exec.Command(s.bin[0], s.bin[1:]...)
	in, _ := s.cmd.StdinPipe()
	out, _ := s.cmd.StdoutPipe()
	s.cmd.Stderr = nil
	if err := s.cmd.Start(); err != nil {
		panic(fmt.Sprintf("cannot start solver %v: %v", s.bin, err))
	}
	s.in = in
	s.out = bufio.NewReaderSize(out, 1<<20)
	s.lines = make(chan string, 1024)
	go func(r *bufio.Reader, ch chan string) {
		for {
			l, err := r.ReadString('\n')
			if l != "" {
				ch <- strings.TrimRight(l, "\n")
			}
			if err != nil {
				close(ch)
				return
			}
		}
	}(s.out, s.lines)
	s.stack = nil
	s.sinceStart = 0
	s.defined = map[*Term]bool{}
	s.declVar = map[*Term]bool{}
	s.declUF = map[string]bool{}
	s.send("(set-option :global-declarations true)")
	s.send("(set-option :produce-models true)")
	s.curMs = 0
	s.setTimeout(s.fastMs)
	s.dirty = false
}

func (s *Solver) Close() {
	if s.cmd != nil && s.cmd.Process != nil {
		s.in.Close()
		s.cmd.Process.Kill()
		s.cmd.Wait()
	}
}

func (s *Solver) restart() {
	s.Close()
	s.Stats.Restarts++
	s.start()
}

func (s *Solver) send(cmd string) {
	if s.log != nil {
		fmt.Fprintln(s.log, cmd)
	}
	io.WriteString(s.in, cmd)
	io.WriteString(s.in, "\n")
}

// roundtrip sends cmd followed by an echo marker and collects output lines up
// to the marker. ok=false on solver death or watchdog expiry.
func (s *Solver) roundtrip(cmd string) (lines []string, ok bool) {
	s.seq++
	marker := fmt.Sprintf("<<done %d>>", s.seq)
	s.send(cmd)
	s.send(fmt.Sprintf("(echo \"%s\")", marker))
	deadline := time.After(time.Duration(s.timeoutMs+15000) * time.Millisecond)
	for {
		select {
		case l, open := <-s.lines:
			if !open {
				return lines, false
			}
			if s.log != nil {
				fmt.Fprintln(s.log, "; <- "+l)
			}
			if strings.Contains(l, marker) {
				return lines, true
			}
			lines = append(lines, l)
		case <-deadline:
			return lines, false
		}
	}
}

func (s *Solver) define(t *Term) {
	if t.op == OpConst {
		return
	}
	if t.op == OpVar {
		if !s.declVar[t] {
			s.declVar[t] = true
			s.send(fmt.Sprintf("(declare-const %s %s)", t.name, t.sort))
		}
		return
	}
	if s.defined[t] {
		return
	}
	// iterative post-order to keep very deep chains off the Go stack
	type fr struct {
		t *Term
		i int
	}
	st := []fr{{t, 0}}
	for len(st) > 0 {
		f := &st[len(st)-1]
		kids := [3]*Term{f.t.a, f.t.b, f.t.c}
		if f.i < 3 {
			k := kids[f.i]
			f.i++
			if k == nil || k.op == OpConst {
				continue
			}
			if k.op == OpVar {
				if !s.declVar[k] {
					s.declVar[k] = true
					s.send(fmt.Sprintf("(declare-const %s %s)", k.name, k.sort))
				}
				continue
			}
			if !s.defined[k] {
				st = append(st, fr{k, 0})
			}
			continue
		}
		x := f.t
		st = st[:len(st)-1]
		if s.defined[x] {
			continue
		}
		if x.op == OpUF && !s.declUF[x.name] {
			s.declUF[x.name] = true
			var as []string
			for _, a := range TS.ufArg[x.name] {
				as = append(as, a.String())
			}
			s.send(fmt.Sprintf("(declare-fun %s (%s) %s)", x.name, strings.Join(as, " "), TS.ufs[x.name]))
		}
		s.defined[x] = true
		s.send(fmt.Sprintf("(define-fun t%d () %s %s)", x.id, x.sort, smtBody(x)))
	}
}

func (s *Solver) sync(pc []*Term) {
	common := 0
	for common < len(s.stack) && common < len(pc) && s.stack[common] == pc[common] {
		common++
	}
	if n := len(s.stack) - common; n > 0 {
		s.send(fmt.Sprintf("(pop %d)", n))
		s.stack = s.stack[:common]
	}
	for _, t := range pc[common:] {
		s.define(t)
		s.send("(push 1)")
		s.send("(assert " + smtName(t) + ")")
		s.stack = append(s.stack, t)
	}
}

var valRe = regexp.MustCompile(`\(\s*([^\s()]+)\s+(#x[0-9a-fA-F]+|#b[01]+|true|false)\s*\)`)

// Check decides pc ∧ extra. Returns "sat", "unsat" or "unknown"; with
// wantModel and sat it also returns values for every declared variable.
func (s *Solver) Check(pc []*Term, extra []*Term, wantModel bool) (string, map[*Term]uint64) {
	if s.rawExtra == "" {
		s.MaybeRestart()
	}
	for attempt := 0; attempt < 2; attempt++ {
		res, m, retry := s.check1(pc, extra, wantModel)
		if !retry {
			return res, m
		}
		s.restart()
	}
	s.Stats.Unknown++
	return "unknown", nil
}

// guard arms a timer that kills the solver process if the surrounding
// operation (sending the query included) has not finished ms milliseconds
// from now: a z3 that ignores its timeout, or stops reading its input, must
// not be able to block a worker.
func (s *Solver) guard(ms int) *time.Timer {
	cmd := s.cmd
	return time.AfterFunc(time.Duration(ms)*time.Millisecond, func() {
		if cmd != nil && cmd.Process != nil {
			cmd.Process.Kill()
		}
	})
}

func (s *Solver) check1(pc []*Term, extra []*Term, wantModel bool) (string, map[*Term]uint64, bool) {
	t0 := time.Now()
	g := s.guard(s.fastMs + 30000)
	defer g.Stop()
	s.sinceStart++
	s.sync(pc)
	for _, e := range extra {
		s.define(e)
	}
	hasExtra := len(extra) > 0 || s.rawExtra != ""
	if hasExtra {
		s.send("(push 1)")
		for _, e := range extra {
			s.send("(assert " + smtName(e) + ")")
		}
		if s.rawExtra != "" {
			s.send("(assert " + s.rawExtra + ")")
		}
	}
	s.Stats.Queries++
	res := "unknown"
	s.setTimeout(s.fastMs)
	{
		lines, ok := s.roundtrip("(check-sat)")
		if !ok {
			// The incremental process did not honour its (short) timeout or
			// died. Nothing is concluded from it: the process is discarded and
			// the query is decided by a fresh one-shot process below.
			s.Stats.Hung++
			s.dirty = true
			lines = nil
			hasExtra = false // no pop on a process that is going away
		}
		for _, l := range lines {
			l = strings.TrimSpace(l)
			if strings.HasPrefix(l, "(error") {
				if strings.Contains(l, "canceled") || strings.Contains(l, "timeout") {
					res = "unknown"
					continue
				}
				s.Stats.Errors++
				s.lastErr = l
				res = "error"
				break
			}
			if l == "sat" || l == "unsat" || l == "unknown" {
				res = l
			}
		}
	}
	if res == "unknown" {
		// The fast incremental attempt timed out. z3's incremental context
		// is not trustworthy after a cancelled check (observed: sat answers
		// whose model violates asserted terms), so it is discarded, and the
		// query is decided by a fresh non-incremental process.
		if hasExtra {
			s.send("(pop 1)")
		}
		s.dirty = true
		s.Stats.Slow++
		r, m := s.oneShot(pc, extra, s.rawExtra, s.rawTerms, wantModel)
		d := time.Since(t0).Seconds()
		s.Stats.Seconds += d
		if d > s.Stats.MaxQuery {
			s.Stats.MaxQuery = d
		}
		switch r {
		case "sat":
			s.Stats.Sat++
		case "unsat":
			s.Stats.Unsat++
		default:
			s.Stats.Unknown++
		}
		return r, m, false
	}
	var model map[*Term]uint64
	if res == "sat" && wantModel {
		var names []string
		byName := map[string]*Term{}
		for v := range s.declVar {
			names = append(names, v.name)
			byName[v.name] = v
		}
		model = map[*Term]uint64{}
		if len(names) > 0 {
			ml, ok := s.roundtrip("(get-value (" + strings.Join(names, " ") + "))")
			txt := strings.Join(ml, " ")
			if !ok || strings.Contains(txt, "(error") {
				// The incremental process died or failed while printing
				// the model. Nothing is taken from it: it is discarded and
				// the query (with its model) is decided by a fresh process.
				s.Stats.Hung++
				s.dirty = true
				r, m := s.oneShot(pc, extra, s.rawExtra, s.rawTerms, wantModel)
				s.Stats.Seconds += time.Since(t0).Seconds()
				switch r {
				case "sat":
					s.Stats.Sat++
				case "unsat":
					s.Stats.Unsat++
				default:
					s.Stats.Unknown++
				}
				return r, m, false
			}
			for _, mm := range valRe.FindAllStringSubmatch(txt, -1) {
				v := byName[mm[1]]
				if v == nil {
					continue
				}
				var x uint64
				switch {
				case mm[2] == "true":
					x = 1
				case mm[2] == "false":
					x = 0
				case strings.HasPrefix(mm[2], "#x"):
					x, _ = strconv.ParseUint(mm[2][2:], 16, 64)
				default:
					x, _ = strconv.ParseUint(mm[2][2:], 2, 64)
				}
				model[v] = x
			}
		}
	}
	if hasExtra {
		s.send("(pop 1)")
	}
	d := time.Since(t0).Seconds()
	s.Stats.Seconds += d
	if d > s.Stats.MaxQuery {
		s.Stats.MaxQuery = d
	}
	switch res {
	case "sat":
		s.Stats.Sat++
	case "unsat":
		s.Stats.Unsat++
	case "error":
		// an (error line makes the answer meaningless
		return "unknown", nil, false
	default:
		s.Stats.Unknown++
	}
	return res, model, false
}

// MaybeRestart replaces the solver process after a number of queries: z3's
// incremental context degrades badly as definitions and popped scopes pile up.
// Must not be called between define() and the query that uses the definition.
func (s *Solver) MaybeRestart() {
	if s.sinceStart > s.restartEvery || s.dirty {
		s.dirty = false
		s.Close()
		s.start()
	}
}

// CheckRaw decides pc ∧ raw where raw is an SMT-LIB Bool expression over
// already defined terms.
func (s *Solver) CheckRaw(pc []*Term, raw string, rawTerms []*Term, wantModel bool) (string, map[*Term]uint64) {
	s.rawExtra = raw
	s.rawTerms = rawTerms
	defer func() { s.rawExtra = ""; s.rawTerms = nil }()
	return s.Check(pc, nil, wantModel)
}

// oneShot decides pc ∧ extra ∧ raw in a fresh process without push/pop, so
// that z3 runs its full non-incremental strategy.
func (s *Solver) oneShot(pc, extra []*Term, raw string, rawTerms []*Term, wantModel bool) (string, map[*Term]uint64) {
	o := &Solver{bin: s.bin, timeoutMs: s.timeoutMs, fastMs: s.timeoutMs, restartEvery: 1 << 30, log: s.log}
	o.start()
	defer o.Close()
	og := o.guard(o.timeoutMs + 20000)
	defer og.Stop()
	for _, t := range pc {
		o.define(t)
		o.send("(assert " + smtName(t) + ")")
	}
	for _, t := range extra {
		o.define(t)
		o.send("(assert " + smtName(t) + ")")
	}
	for _, t := range rawTerms {
		o.define(t)
	}
	if raw != "" {
		o.send("(assert " + raw + ")")
	}
	lines, ok := o.roundtrip("(check-sat)")
	if !ok {
		s.Stats.Errors++
		s.lastErr = "one-shot solver died or watchdog expired"
		return "unknown", nil
	}
	res := "unknown"
	for _, l := range lines {
		l = strings.TrimSpace(l)
		if strings.HasPrefix(l, "(error") {
			if strings.Contains(l, "canceled") || strings.Contains(l, "timeout") {
				continue
			}
			s.Stats.Errors++
			s.lastErr = l
			return "unknown", nil
		}
		if l == "sat" || l == "unsat" || l == "unknown" {
			res = l
		}
	}
	if res != "sat" || !wantModel {
		return res, nil
	}
	var names []string
	byName := map[string]*Term{}
	for v := range o.declVar {
		names = append(names, v.name)
		byName[v.name] = v
	}
	model := map[*Term]uint64{}
	if len(names) > 0 {
		ml, ok := o.roundtrip("(get-value (" + strings.Join(names, " ") + "))")
		if !ok {
			s.Stats.Errors++
			return "unknown", nil
		}
		parseModel(strings.Join(ml, " "), byName, model)
	}
	return res, model
}

func parseModel(txt string, byName map[string]*Term, model map[*Term]uint64) {
	for _, mm := range valRe.FindAllStringSubmatch(txt, -1) {
		v := byName[mm[1]]
		if v == nil {
			continue
		}
		var x uint64
		switch {
		case mm[2] == "true":
			x = 1
		case mm[2] == "false":
			x = 0
		case strings.HasPrefix(mm[2], "#x"):
			x, _ = strconv.ParseUint(mm[2][2:], 16, 64)
		default:
			x, _ = strconv.ParseUint(mm[2][2:], 2, 64)
		}
		model[v] = x
	}
}

// OneShot decides the conjunction of terms in a fresh process of the given
// binary (used for the z3 / z3-new differential).
func OneShot(bin []string, timeoutMs int, conj []*Term) string {
	s := NewSolver(bin, timeoutMs)
	defer s.Close()
	res, _ := s.Check(nil, conj, false)
	return res
}
