package main

// Path exploration by re-execution: the interpreter is deterministic given
// the sequence of decisions; after each path the deepest decision with an
// untried alternative is flipped (one solver query to obtain a model for the
// new prefix) and the harness is re-run, replaying the prefix.

import (
	"fmt"
	"os"
)

var brStatOn = os.Getenv("GOSYM_BRSTAT") != ""

type pcEntry struct {
	term *Term // asserted Bool term
	// decision bookkeeping
	kind   int // 0 = assume/constraint, 1 = boolean branch, 2 = n-ary choice
	cond   *Term
	taken  bool   // kind 1: direction taken
	flipOK bool   // kind 1: alternative not yet tried
	subj   *Term  // kind 2: term being concretised
	val    uint64 // kind 2: chosen value
	tried  []uint64
	noAlt  bool // kind 2: exhausted
}

type pathAbort struct {
	kind string // "infeasible", "unwind", "unsupported", "done", "unknown", "budget"
	msg  string
}

type Failure struct {
	ID       string            `json:"id"`
	Msg      string            `json:"msg"`
	Known    string            `json:"known,omitempty"`
	Tape     []TapeEntry       `json:"tape"`
	Harness  string            `json:"harness"`
	Params   map[string]int    `json:"params,omitempty"`
	Replayed string            `json:"replayed,omitempty"`
	Extra    map[string]string `json:"extra,omitempty"`
}

type TapeEntry struct {
	Kind string `json:"k"`
	Val  uint64 `json:"v"`
}

type nondetRec struct {
	kind string
	t    *Term
}

type knownClass struct {
	id   string
	cond *Term
	once bool // applies to the next assertion only
}

type Explorer struct {
	solver *Solver
	pc     []pcEntry
	pos    int // replay position
	prefix int // length of forced prefix for this run
	model  map[*Term]uint64

	nondets []nondetRec
	knowns  []knownClass

	// results
	Paths          int
	PathsDone      int
	PathsPanic     int
	Infeasible     int
	Asserts        int // assertion checks with a symbolic condition
	AssertsTrivial int
	UnwindFail     int
	Unsupported    map[string]int
	Unknown        int
	Mismatch       int
	ModelRetries   int
	Failures       []Failure
	FailHits       int // failed assertion checks outside the known-finding classes
	KnownHits      map[string]int
	Reached        map[string]int
	Samples        []string
	maxChoices     int
	maxFailures    int
	openKnown      map[string]bool
	assertPaths    map[string]int
	shareWrites    map[string]int
	curHarness     string
	curParams      map[string]int
	Out            map[string]int
	FailedIDs      map[string]bool
	groupSize      int
	sampleTape     []TapeEntry
	sampleScore    int
	samplePC       string
}

func NewExplorer(s *Solver) *Explorer {
	return &Explorer{solver: s, Unsupported: map[string]int{}, KnownHits: map[string]int{}, Reached: map[string]int{},
		maxChoices: 600, maxFailures: 3, groupSize: envInt("GOSYM_GROUP", 1), openKnown: map[string]bool{}, assertPaths: map[string]int{}, shareWrites: map[string]int{}, Out: map[string]int{}, FailedIDs: map[string]bool{}}
}

func (ex *Explorer) pcTerms(n int) []*Term {
	ts := make([]*Term, 0, n)
	for i := 0; i < n; i++ {
		ts = append(ts, ex.pc[i].term)
	}
	return ts
}

func (ex *Explorer) setModel(m map[*Term]uint64) {
	ex.model = m
	TS.SetModel(m)
}

func (ex *Explorer) eval(t *Term) uint64 { return TS.Eval(t) }

// Branch decides a symbolic condition.
func (ex *Explorer) Branch(cond *Term) bool {
	if cond.IsConst() {
		return cond.cv == 1
	}
	if ex.pos < len(ex.pc) {
		e := &ex.pc[ex.pos]
		if e.kind != 1 || e.cond != cond {
			panic(fmt.Sprintf("replay divergence at decision %d: expected kind %d %v, got branch on t%d", ex.pos, e.kind, tid(e.cond), cond.id))
		}
		ex.pos++
		return e.taken
	}
	dir := ex.eval(cond) == 1
	t := cond
	if !dir {
		t = Not(cond)
	}
	if brStatOn && curIns != nil {
		brStat[curIns.Parent().Name()+": "+curIns.String()]++
	}
	// the same condition already decided on this path: no alternative
	flip := true
	for k := len(ex.pc) - 1; k >= 0; k-- {
		if ex.pc[k].term == t {
			flip = false
			break
		}
	}
	ex.pc = append(ex.pc, pcEntry{term: t, kind: 1, cond: cond, taken: dir, flipOK: flip})
	ex.pos++
	return dir
}

// Choose concretises a BV term to one of its feasible values.
func (ex *Explorer) Choose(t *Term) uint64 {
	if t.IsConst() {
		return t.cv
	}
	if ex.pos < len(ex.pc) {
		e := &ex.pc[ex.pos]
		if e.kind != 2 || e.subj != t {
			panic(fmt.Sprintf("replay divergence at decision %d: expected kind %d, got choose on t%d", ex.pos, e.kind, t.id))
		}
		ex.pos++
		return e.val
	}
	v := ex.eval(t)
	ex.pc = append(ex.pc, pcEntry{term: Eq(t, Const(t.sort, v)), kind: 2, subj: t, val: v})
	ex.pos++
	return v
}

// Assume adds a constraint; aborts the path if it is infeasible.
func (ex *Explorer) Assume(cond *Term) {
	if cond.IsTrue() {
		return
	}
	if ex.pos < len(ex.pc) {
		e := &ex.pc[ex.pos]
		if e.kind != 0 || e.term != cond {
			panic(fmt.Sprintf("replay divergence at decision %d: expected kind %d, got assume", ex.pos, e.kind))
		}
		ex.pos++
		return
	}
	if cond.IsFalse() {
		panic(pathAbort{"infeasible", "assume(false)"})
	}
	if ex.eval(cond) != 1 {
		res, m := ex.checkModel(ex.pcTerms(len(ex.pc)), []*Term{cond})
		switch res {
		case "unsat":
			panic(pathAbort{"infeasible", "assume"})
		case "sat":
			ex.setModel(m)
		default:
			panic(pathAbort{"unknown", "assume: solver " + res})
		}
	}
	ex.pc = append(ex.pc, pcEntry{term: cond, kind: 0})
	ex.pos++
}

func (ex *Explorer) tape() []TapeEntry {
	var tp []TapeEntry
	for _, n := range ex.nondets {
		tp = append(tp, TapeEntry{n.kind, ex.eval(n.t)})
	}
	return tp
}

// Assert checks cond on the current path. It never aborts the path: a failed
// assertion is recorded and execution continues under cond.
func (ex *Explorer) Assert(cond *Term, id, msg string) {
	ex.assertPaths[id]++
	if foreignAssertion(id) {
		// shared harnesses carry assertions of several properties; each
		// property's check decides (and reports) its own only
		ex.dropOnce()
		return
	}
	if cond.IsTrue() {
		ex.AssertsTrivial++
		ex.dropOnce()
		return
	}
	if ex.pos < len(ex.pc) {
		// replaying the prefix: this assertion was checked when first reached
		ex.dropOnce()
		return
	}
	ex.Asserts++
	neg := Not(cond)
	pcT := ex.pcTerms(len(ex.pc))
	// classes of known findings that are active on this path
	var exclude []*Term
	for _, k := range ex.knowns {
		exclude = append(exclude, Not(k.cond))
	}
	check := func(extra []*Term) (string, map[*Term]uint64) {
		all := append([]*Term{neg}, extra...)
		// cheap: does the current model already witness it?
		ok := true
		for _, t := range all {
			if t.IsFalse() || (!t.IsConst() && ex.eval(t) != 1) {
				ok = false
				break
			}
		}
		if ok {
			return "sat", ex.model
		}
		for _, t := range all {
			if t.IsFalse() {
				return "unsat", nil
			}
		}
		return ex.checkModel(pcT, all)
	}
	res, m := check(exclude)
	switch res {
	case "sat":
		ex.FailedIDs[id] = true
		ex.FailHits++
		saved := ex.model
		ex.setModel(m)
		if len(ex.Failures) < ex.maxFailures {
			ex.Failures = append(ex.Failures, Failure{ID: id, Msg: msg, Tape: ex.tape(), Harness: ex.curHarness, Params: ex.curParams})
		}
		ex.setModel(saved)
	case "unsat":
	default:
		ex.Unknown++
	}
	for _, k := range ex.knowns {
		r2, m2 := check([]*Term{k.cond})
		if r2 == "sat" {
			ex.FailedIDs[id] = true
			if ex.KnownHits[k.id] == 0 {
				saved := ex.model
				ex.setModel(m2)
				ex.Failures = append(ex.Failures, Failure{ID: id, Msg: msg, Known: k.id, Tape: ex.tape(), Harness: ex.curHarness, Params: ex.curParams})
				ex.setModel(saved)
			}
			ex.KnownHits[k.id]++
		} else if r2 != "unsat" {
			ex.Unknown++
		}
	}
	ex.dropOnce()
	// Like a native test, execution continues after a failed assertion and
	// the path condition is left alone.
}

// curProp is the property the running check decides ("" = all assertions).
var curProp string

// foreignAssertion: id has the form "Cnn.…" and names another property.
func foreignAssertion(id string) bool {
	if curProp == "" || len(id) < 4 || id[0] != 'C' || id[3] != '.' || id[1] < '0' || id[1] > '9' || id[2] < '0' || id[2] > '9' {
		return false
	}
	return id[:3] != curProp
}

func (ex *Explorer) dropOnce() {
	k := ex.knowns[:0]
	for _, c := range ex.knowns {
		if !c.once {
			k = append(k, c)
		}
	}
	ex.knowns = k
}

// checkModel is solver.Check plus a consistency check: the evaluator must
// agree with the solver that the returned model satisfies every asserted
// term (validates evaluator, simplifier and printer against the solver).
func (ex *Explorer) checkModel(pc []*Term, extra []*Term) (string, map[*Term]uint64) {
	res, m := ex.solver.Check(pc, extra, true)
	if res == "sat" && ex.modelBad(m, pc, extra) != nil {
		// the incremental core returned a model that violates an asserted
		// term: discard that process and decide the query again in a fresh
		// non-incremental one
		ex.ModelRetries++
		ex.solver.dirty = true
		res, m = ex.solver.oneShot(pc, extra, "", nil, true)
		ex.solver.Stats.Queries++
		if res == "sat" {
			if t := ex.modelBad(m, pc, extra); t != nil {
				ex.modelMismatch(t)
			}
		}
	}
	return res, m
}

func (ex *Explorer) modelBad(m map[*Term]uint64, pc, extra []*Term) *Term {
	saved := ex.model
	ex.setModel(m)
	defer ex.setModel(saved)
	for _, t := range pc {
		if ex.eval(t) != 1 {
			return t
		}
	}
	for _, t := range extra {
		if ex.eval(t) != 1 {
			return t
		}
	}
	return nil
}

func (ex *Explorer) modelMismatch(t *Term) {
	ex.Mismatch++
	if os.Getenv("GOSYM_SMTLOG") != "" && ex.Mismatch < 3 {
		fmt.Fprintf(os.Stderr, "MISMATCH at solver seq %d term %s\n", ex.solver.seq, smtName(t))
		var walk func(x *Term, d int)
		walk = func(x *Term, d int) {
			if x == nil || d > 60 {
				return
			}
			fmt.Fprintf(os.Stderr, "%*s%s = %x   [%s] range[%x,%x]\n", d, "", smtName(x), TS.Eval(x), func() string {
				if x.op == OpConst || x.op == OpVar {
					return ""
				}
				return smtBody(x)
			}(), x.lo, x.hi)
			if x.op == OpIte {
				walk(x.a, d+1)
				if TS.Eval(x.a) == 1 {
					walk(x.b, d+1)
				} else {
					walk(x.c, d+1)
				}
				return
			}
			if x.op == OpConst || x.op == OpVar {
				return
			}
			walk(x.a, d+1)
			walk(x.b, d+1)
		}
		walk(t, 0)
	}
	if len(ex.Samples) < 8 {
		ex.Samples = append(ex.Samples, "evaluator disagrees with solver model on: "+Describe(t, 400))
	}
}

// Fail records an unconditional failure on this path (e.g. a Go panic).
func (ex *Explorer) Fail(id, msg string) {
	ex.Assert(False, id, msg)
}

// altTerm is the condition under which node e's untried alternative is taken.
func altTerm(e *pcEntry) *Term {
	switch e.kind {
	case 1:
		if e.taken {
			return Not(e.cond)
		}
		return e.cond
	case 2:
		t := Ne(e.subj, Const(e.subj.sort, e.val))
		for _, v := range e.tried {
			t = And(t, Ne(e.subj, Const(e.subj.sort, v)))
		}
		return t
	}
	return False
}

func (e *pcEntry) hasAlt() bool {
	return (e.kind == 1 && e.flipOK) || (e.kind == 2 && !e.noAlt)
}

// next prepares the next path: returns false when exploration is complete.
// Instead of testing each untried alternative with its own query, one query
// asks whether ANY alternative below the current path is feasible
// (∨_k prefix_k ∧ alt_k, nested so it stays linear); unsat retires them all.
func (ex *Explorer) next() bool {
	for {
		// drop exhausted tail
		for len(ex.pc) > 0 && !ex.pc[len(ex.pc)-1].hasAlt() {
			ex.pc = ex.pc[:len(ex.pc)-1]
		}
		if len(ex.pc) == 0 {
			return false
		}
		var cand []int
		for k := range ex.pc {
			if ex.pc[k].hasAlt() {
				if ex.pc[k].kind == 2 && len(ex.pc[k].tried)+1 >= ex.maxChoices {
					ex.UnwindFail++
					ex.Samples = append(ex.Samples, fmt.Sprintf("choice over %s exceeded %d values", Describe(ex.pc[k].subj, 80), ex.maxChoices))
					ex.pc[k].noAlt = true
					continue
				}
				cand = append(cand, k)
			}
		}
		if len(cand) == 0 {
			continue
		}
		// only the deepest group: shallower nodes are tested when reached
		if len(cand) > ex.groupSize {
			cand = cand[len(cand)-ex.groupSize:]
		}
		best := -1
		var bestModel map[*Term]uint64
		for len(cand) > 0 {
			start := cand[0]
			inCand := map[int]bool{}
			for _, k := range cand {
				inCand[k] = true
			}
			// nested disjunction, built as text over defined term names
			ex.solver.MaybeRestart()
			alts := map[int]*Term{}
			for _, k := range cand {
				alts[k] = altTerm(&ex.pc[k])
				ex.solver.define(alts[k])
			}
			for k := start; k < len(ex.pc); k++ {
				ex.solver.define(ex.pc[k].term)
			}
			acc := ""
			for k := len(ex.pc) - 1; k >= start; k-- {
				pcn := smtName(ex.pc[k].term)
				if inCand[k] {
					an := smtName(alts[k])
					if acc == "" {
						acc = an
					} else {
						acc = "(or " + an + " (and " + pcn + " " + acc + "))"
					}
				} else if acc != "" {
					acc = "(and " + pcn + " " + acc + ")"
				}
			}
			var rawTerms []*Term
			for _, k := range cand {
				rawTerms = append(rawTerms, alts[k])
			}
			for k := start; k < len(ex.pc); k++ {
				rawTerms = append(rawTerms, ex.pc[k].term)
			}
			res, m := ex.solver.CheckRaw(ex.pcTerms(start), acc, rawTerms, true)
			if res == "unsat" {
				for _, k := range cand {
					e := &ex.pc[k]
					if e.kind == 1 {
						e.flipOK = false
					} else {
						e.noAlt = true
					}
				}
				break
			}
			if res != "sat" {
				// cannot decide this group: fall back to one query per node
				ex.Unknown++
				for _, k := range cand {
					e := &ex.pc[k]
					if e.kind == 1 {
						e.flipOK = false
					} else {
						e.noAlt = true
					}
				}
				break
			}
			// deepest node whose alternative the model takes
			saved := ex.model
			if ex.modelBad(m, ex.pcTerms(start), nil) != nil {
				ex.ModelRetries++
				ex.solver.dirty = true
				res, m = ex.solver.oneShot(ex.pcTerms(start), nil, acc, rawTerms, true)
				ex.solver.Stats.Queries++
				if res != "sat" {
					if res == "unsat" {
						// the incremental answer was wrong altogether
						ex.Samples = append(ex.Samples, "incremental sat refuted by fresh solver")
					} else {
						ex.Unknown++
					}
					for _, k := range cand {
						e := &ex.pc[k]
						if e.kind == 1 {
							e.flipOK = false
						} else {
							e.noAlt = true
						}
					}
					break
				}
				if t := ex.modelBad(m, ex.pcTerms(start), nil); t != nil {
					ex.modelMismatch(t)
				}
			}
			ex.setModel(m)
			prefixOK := true
			sel := -1
			for k := start; k < len(ex.pc); k++ {
				if inCand[k] && prefixOK && ex.eval(alts[k]) == 1 {
					sel = k
				}
				if ex.eval(ex.pc[k].term) != 1 {
					prefixOK = false
					if sel >= 0 {
						break
					}
				}
			}
			ex.setModel(saved)
			if sel < 0 {
				// model does not witness any alternative (should not happen):
				// retire the group as undecided so exploration terminates
				ex.Unknown++
				ex.Samples = append(ex.Samples, "solver model does not witness any alternative of a sat group query")
				for _, k := range cand {
					e := &ex.pc[k]
					if e.kind == 1 {
						e.flipOK = false
					} else {
						e.noAlt = true
					}
				}
				break
			}
			best, bestModel = sel, m
			var deeper []int
			for _, k := range cand {
				if k > sel {
					deeper = append(deeper, k)
				}
			}
			cand = deeper
		}
		if best < 0 {
			continue
		}
		e := &ex.pc[best]
		ex.setModel(bestModel)
		if e.kind == 1 {
			e.flipOK = false
			e.taken = !e.taken
			if e.taken {
				e.term = e.cond
			} else {
				e.term = Not(e.cond)
			}
		} else {
			e.tried = append(e.tried, e.val)
			e.val = TS.Eval(e.subj)
			e.term = Eq(e.subj, Const(e.subj.sort, e.val))
		}
		ex.pc = ex.pc[:best+1]
		return true
	}
}

func (ex *Explorer) beginPath() {
	ex.pos = 0
	ex.prefix = len(ex.pc)
	ex.nondets = ex.nondets[:0]
	ex.knowns = ex.knowns[:0]
	ex.Paths++
}

func envInt(name string, def int) int {
	if v := os.Getenv(name); v != "" {
		n := 0
		fmt.Sscanf(v, "%d", &n)
		if n > 0 {
			return n
		}
	}
	return def
}
