package main

// Path exploration by re-execution: the interpreter is deterministic given
// the sequence of decisions; after each path the deepest decision with an
// untried alternative is flipped (one solver query to obtain a model for the
// new prefix) and the harness is re-run, replaying the prefix.

import (
	"fmt"
)

type pcEntry struct {
	term *Term // asserted Bool term
	// decision bookkeeping
	kind   int // 0 = assume/constraint, 1 = boolean branch, 2 = n-ary choice
	cond   *Term
	taken  bool   // kind 1: direction taken
	flipOK bool   // kind 1: alternative not yet tried
	subj   *Term  // kind 2: term being concretised
	val    uint64 // kind 2: chosen value
	tried  []uint64
	noAlt  bool // kind 2: exhausted
}

type pathAbort struct {
	kind string // "infeasible", "unwind", "unsupported", "done", "unknown", "budget"
	msg  string
}

type Failure struct {
	ID       string            `json:"id"`
	Msg      string            `json:"msg"`
	Known    string            `json:"known,omitempty"`
	Tape     []TapeEntry       `json:"tape"`
	Harness  string            `json:"harness"`
	Params   map[string]int    `json:"params,omitempty"`
	Replayed string            `json:"replayed,omitempty"`
	Extra    map[string]string `json:"extra,omitempty"`
}

type TapeEntry struct {
	Kind string `json:"k"`
	Val  uint64 `json:"v"`
}

type nondetRec struct {
	kind string
	t    *Term
}

type knownClass struct {
	id   string
	cond *Term
}

type Explorer struct {
	solver *Solver
	pc     []pcEntry
	pos    int // replay position
	prefix int // length of forced prefix for this run
	model  map[*Term]uint64

	nondets []nondetRec
	knowns  []knownClass

	// results
	Paths          int
	PathsDone      int
	PathsPanic     int
	Infeasible     int
	Asserts        int // assertion checks with a symbolic condition
	AssertsTrivial int
	UnwindFail     int
	Unsupported    map[string]int
	Unknown        int
	Failures       []Failure
	KnownHits      map[string]int
	Reached        map[string]int
	Samples        []string
	maxChoices     int
	maxFailures    int
	openKnown      map[string]bool
	assertPaths    map[string]int
	shareWrites    map[string]int
	curHarness     string
	curParams      map[string]int
	Out            map[string]int
	sampleTape     []TapeEntry
	sampleScore    int
	samplePC       string
}

func NewExplorer(s *Solver) *Explorer {
	return &Explorer{solver: s, Unsupported: map[string]int{}, KnownHits: map[string]int{}, Reached: map[string]int{},
		maxChoices: 600, maxFailures: 3, openKnown: map[string]bool{}, assertPaths: map[string]int{}, shareWrites: map[string]int{}, Out: map[string]int{}}
}

func (ex *Explorer) pcTerms(n int) []*Term {
	ts := make([]*Term, 0, n)
	for i := 0; i < n; i++ {
		ts = append(ts, ex.pc[i].term)
	}
	return ts
}

func (ex *Explorer) setModel(m map[*Term]uint64) {
	ex.model = m
	TS.SetModel(m)
}

func (ex *Explorer) eval(t *Term) uint64 { return TS.Eval(t) }

// Branch decides a symbolic condition.
func (ex *Explorer) Branch(cond *Term) bool {
	if cond.IsConst() {
		return cond.cv == 1
	}
	if ex.pos < len(ex.pc) {
		e := &ex.pc[ex.pos]
		if e.kind != 1 || e.cond != cond {
			panic(fmt.Sprintf("replay divergence at decision %d: expected kind %d %v, got branch on t%d", ex.pos, e.kind, tid(e.cond), cond.id))
		}
		ex.pos++
		return e.taken
	}
	dir := ex.eval(cond) == 1
	t := cond
	if !dir {
		t = Not(cond)
	}
	ex.pc = append(ex.pc, pcEntry{term: t, kind: 1, cond: cond, taken: dir, flipOK: true})
	ex.pos++
	return dir
}

// Choose concretises a BV term to one of its feasible values.
func (ex *Explorer) Choose(t *Term) uint64 {
	if t.IsConst() {
		return t.cv
	}
	if ex.pos < len(ex.pc) {
		e := &ex.pc[ex.pos]
		if e.kind != 2 || e.subj != t {
			panic(fmt.Sprintf("replay divergence at decision %d: expected kind %d, got choose on t%d", ex.pos, e.kind, t.id))
		}
		ex.pos++
		return e.val
	}
	v := ex.eval(t)
	ex.pc = append(ex.pc, pcEntry{term: Eq(t, Const(t.sort, v)), kind: 2, subj: t, val: v})
	ex.pos++
	return v
}

// Assume adds a constraint; aborts the path if it is infeasible.
func (ex *Explorer) Assume(cond *Term) {
	if cond.IsTrue() {
		return
	}
	if ex.pos < len(ex.pc) {
		e := &ex.pc[ex.pos]
		if e.kind != 0 || e.term != cond {
			panic(fmt.Sprintf("replay divergence at decision %d: expected kind %d, got assume", ex.pos, e.kind))
		}
		ex.pos++
		return
	}
	if cond.IsFalse() {
		panic(pathAbort{"infeasible", "assume(false)"})
	}
	if ex.eval(cond) != 1 {
		res, m := ex.solver.Check(ex.pcTerms(len(ex.pc)), []*Term{cond}, true)
		switch res {
		case "unsat":
			panic(pathAbort{"infeasible", "assume"})
		case "sat":
			ex.setModel(m)
		default:
			panic(pathAbort{"unknown", "assume: solver " + res})
		}
	}
	ex.pc = append(ex.pc, pcEntry{term: cond, kind: 0})
	ex.pos++
}

func (ex *Explorer) tape() []TapeEntry {
	var tp []TapeEntry
	for _, n := range ex.nondets {
		tp = append(tp, TapeEntry{n.kind, ex.eval(n.t)})
	}
	return tp
}

// Assert checks cond on the current path. It never aborts the path: a failed
// assertion is recorded and execution continues under cond.
func (ex *Explorer) Assert(cond *Term, id, msg string) {
	ex.assertPaths[id]++
	if cond.IsTrue() {
		ex.AssertsTrivial++
		return
	}
	if ex.pos < len(ex.pc) {
		// replaying the prefix: this assertion was checked when first reached
		if cond.IsFalse() {
			panic(pathAbort{"done", "assertion false"})
		}
		ex.pos++
		return
	}
	ex.Asserts++
	neg := Not(cond)
	pcT := ex.pcTerms(len(ex.pc))
	// classes of known findings that are active on this path
	var exclude []*Term
	for _, k := range ex.knowns {
		exclude = append(exclude, Not(k.cond))
	}
	check := func(extra []*Term) (string, map[*Term]uint64) {
		all := append([]*Term{neg}, extra...)
		// cheap: does the current model already witness it?
		ok := true
		for _, t := range all {
			if t.IsFalse() || (!t.IsConst() && ex.eval(t) != 1) {
				ok = false
				break
			}
		}
		if ok {
			return "sat", ex.model
		}
		for _, t := range all {
			if t.IsFalse() {
				return "unsat", nil
			}
		}
		return ex.solver.Check(pcT, all, true)
	}
	res, m := check(exclude)
	switch res {
	case "sat":
		saved := ex.model
		ex.setModel(m)
		if len(ex.Failures) < ex.maxFailures {
			ex.Failures = append(ex.Failures, Failure{ID: id, Msg: msg, Tape: ex.tape(), Harness: ex.curHarness, Params: ex.curParams})
		}
		ex.setModel(saved)
	case "unsat":
	default:
		ex.Unknown++
	}
	for _, k := range ex.knowns {
		r2, m2 := check([]*Term{k.cond})
		if r2 == "sat" {
			if ex.KnownHits[k.id] == 0 {
				saved := ex.model
				ex.setModel(m2)
				ex.Failures = append(ex.Failures, Failure{ID: id, Msg: msg, Known: k.id, Tape: ex.tape(), Harness: ex.curHarness, Params: ex.curParams})
				ex.setModel(saved)
			}
			ex.KnownHits[k.id]++
		} else if r2 != "unsat" {
			ex.Unknown++
		}
	}
	// continue under the asserted condition (if it can hold at all)
	if cond.IsFalse() {
		panic(pathAbort{"done", "assertion false"})
	}
	if ex.eval(cond) != 1 {
		r3, m3 := ex.solver.Check(pcT, []*Term{cond}, true)
		if r3 != "sat" {
			if r3 != "unsat" {
				ex.Unknown++
			}
			// still consume a pc slot for determinism on replay
			ex.pc = append(ex.pc, pcEntry{term: cond, kind: 0})
			ex.pos++
			panic(pathAbort{"done", "assertion cannot hold"})
		}
		ex.setModel(m3)
	}
	ex.pc = append(ex.pc, pcEntry{term: cond, kind: 0})
	ex.pos++
}

// Fail records an unconditional failure on this path (e.g. a Go panic).
func (ex *Explorer) Fail(id, msg string) {
	ex.Assert(False, id, msg)
}

// next prepares the next path: returns false when exploration is complete.
func (ex *Explorer) next() bool {
	for len(ex.pc) > 0 {
		i := len(ex.pc) - 1
		e := &ex.pc[i]
		switch e.kind {
		case 1:
			if e.flipOK {
				e.flipOK = false
				e.taken = !e.taken
				if e.taken {
					e.term = e.cond
				} else {
					e.term = Not(e.cond)
				}
				res, m := ex.solver.Check(ex.pcTerms(len(ex.pc)), nil, true)
				if res == "sat" {
					ex.setModel(m)
					return true
				}
				if res != "unsat" {
					ex.Unknown++
				}
			}
		case 2:
			if !e.noAlt {
				e.tried = append(e.tried, e.val)
				if len(e.tried) >= ex.maxChoices {
					ex.UnwindFail++
					ex.Samples = append(ex.Samples, fmt.Sprintf("choice over %s exceeded %d values", Describe(e.subj, 80), ex.maxChoices))
					e.noAlt = true
				} else {
					var extra []*Term
					for _, v := range e.tried {
						extra = append(extra, Ne(e.subj, Const(e.subj.sort, v)))
					}
					res, m := ex.solver.Check(ex.pcTerms(i), extra, true)
					if res == "sat" {
						ex.setModel(m)
						e.val = TS.Eval(e.subj)
						e.term = Eq(e.subj, Const(e.subj.sort, e.val))
						return true
					}
					if res != "unsat" {
						ex.Unknown++
					}
					e.noAlt = true
				}
			}
		}
		ex.pc = ex.pc[:i]
	}
	return false
}

func (ex *Explorer) beginPath() {
	ex.pos = 0
	ex.prefix = len(ex.pc)
	ex.nondets = ex.nondets[:0]
	ex.knowns = ex.knowns[:0]
	ex.Paths++
}
