package main

import (
	"encoding/json"
	"flag"
	"fmt"
	"os"
	"path/filepath"
	"runtime/debug"
	"runtime/pprof"
	"sort"
	"strconv"
	"strings"
	"time"

	"golang.org/x/tools/go/packages"
	"golang.org/x/tools/go/ssa"
	"golang.org/x/tools/go/ssa/ssautil"
)

type multiFlag []string

func (m *multiFlag) String() string     { return strings.Join(*m, ",") }
func (m *multiFlag) Set(s string) error { *m = append(*m, s); return nil }

// harness source layout: /verif/harness/<name>/*.go is overlaid into the
// package directory given by pkgDirs[<name>] as zz_verif_<file>.
var pkgDirs = map[string]string{
	"fit":      ".",
	"dyncrc16": "dyncrc16",
	"types":    "internal/types",
}

type World struct {
	prog    *ssa.Program
	pkgs    map[string]*ssa.Package // by harness dir name
	loadS   float64
	buildS  float64
	overlay map[string][]byte
}

func buildTags() string {
	if os.Getenv("GOSYM_GEN") != "" {
		return "verif,verifgen"
	}
	return "verif"
}

func verifRoot() string {
	if r := os.Getenv("VERIF_ROOT"); r != "" {
		return r
	}
	return "/verif"
}

func repoRoot() string {
	if r := os.Getenv("VERIF_REPO"); r != "" {
		return r
	}
	return "/repo"
}

// buildOverlay maps harness files into the repo tree. extra replaces repo
// files (used by the mutation self-test).
func buildOverlay(extra map[string][]byte) (map[string][]byte, []string) {
	ov := map[string][]byte{}
	var patterns []string
	hroot := filepath.Join(verifRoot(), "harness")
	api, err := os.ReadFile(filepath.Join(hroot, "api.go.txt"))
	if err != nil {
		panic(err)
	}
	for name, dir := range pkgDirs {
		files, _ := filepath.Glob(filepath.Join(hroot, name, "*.go"))
		if len(files) == 0 {
			continue
		}
		pkgName := name
		for _, f := range files {
			if strings.HasSuffix(f, "_test.go") {
				continue
			}
			src, _ := os.ReadFile(f)
			ov[filepath.Join(repoRoot(), dir, "zz_verif_"+filepath.Base(f))] = src
		}
		if g := os.Getenv("GOSYM_GEN"); g != "" {
			gfiles, _ := filepath.Glob(filepath.Join(genDir(), name, "*.go"))
			for _, f := range gfiles {
				src, _ := os.ReadFile(f)
				ov[filepath.Join(repoRoot(), dir, "zz_verif_gen_"+filepath.Base(f))] = src
			}
		}
		ov[filepath.Join(repoRoot(), dir, "zz_verif_api.go")] = []byte(strings.Replace(string(api), "package PKG", "package "+pkgName, 1))
		if dir == "." {
			patterns = append(patterns, ".")
		} else {
			patterns = append(patterns, "./"+dir)
		}
	}
	for k, v := range extra {
		ov[k] = v
	}
	sort.Strings(patterns)
	return ov, patterns
}

func loadWorld(extra map[string][]byte) *World {
	t0 := time.Now()
	ov, patterns := buildOverlay(extra)
	cfg := &packages.Config{
		Mode:       packages.LoadAllSyntax,
		Dir:        repoRoot(),
		Overlay:    ov,
		BuildFlags: []string{"-tags=" + buildTags()},
		Env:        append(os.Environ(), "GOFLAGS=-mod=mod", "GOPROXY=off", "GOSUMDB=off", "GOTOOLCHAIN=local"),
	}
	pkgs, err := packages.Load(cfg, patterns...)
	if err != nil {
		fmt.Fprintln(os.Stderr, "load error:", err)
		os.Exit(2)
	}
	bad := false
	for _, p := range pkgs {
		for _, e := range p.Errors {
			fmt.Fprintln(os.Stderr, "package error:", e)
			bad = true
		}
	}
	if bad {
		os.Exit(2)
	}
	w := &World{pkgs: map[string]*ssa.Package{}, overlay: ov}
	w.loadS = time.Since(t0).Seconds()
	t1 := time.Now()
	prog, spkgs := ssautil.AllPackages(pkgs, ssa.InstantiateGenerics)
	prog.Build()
	w.prog = prog
	for i, p := range pkgs {
		for name, dir := range pkgDirs {
			want := "github.com/tormoder/fit"
			if dir != "." {
				want += "/" + dir
			}
			if p.PkgPath == want {
				w.pkgs[name] = spkgs[i]
			}
		}
	}
	w.buildS = time.Since(t1).Seconds()
	return w
}

var initAllow = map[string]bool{
	"io": true, "errors": true, "bytes": true, "time": true, "sort": true, "unicode/utf8": true,
	"math": true, "math/bits": true, "encoding/binary": true, "strconv": true, "hash": true,
	"internal/oserror": true, "internal/byteorder": true, "slices": true, "cmp": true,
}

type HarnessResult struct {
	Harness     string            `json:"harness"`
	Params      map[string]int    `json:"params,omitempty"`
	Paths       int               `json:"paths"`
	PathsDone   int               `json:"paths_completed"`
	PathsPanic  int               `json:"paths_panicked"`
	Infeasible  int               `json:"paths_pruned_by_assume"`
	Asserts     int               `json:"assert_checks_symbolic"`
	AssertsTriv int               `json:"assert_checks_folded"`
	UnwindFail  int               `json:"unwind_failures"`
	Unknown     int               `json:"unknown_queries"`
	ModelRetries int              `json:"model_retries"`
	Unsupported map[string]int    `json:"unsupported,omitempty"`
	Failures    []Failure         `json:"failures,omitempty"`
	KnownHits   map[string]int    `json:"known_hits,omitempty"`
	Reached     map[string]int    `json:"reached,omitempty"`
	AssertPaths map[string]int    `json:"assert_paths,omitempty"`
	Shared      map[string]int    `json:"shared_writes,omitempty"`
	Samples     []string          `json:"samples,omitempty"`
	Steps       int64             `json:"ssa_instructions"`
	Solver      SolverStats       `json:"solver"`
	WallS       float64           `json:"wall_s"`
	Funcs       []string          `json:"functions_encoded,omitempty"`
	Stubs       []string          `json:"stubs_used,omitempty"`
	EngineErr   string            `json:"engine_error,omitempty"`
	SolverErr   string            `json:"solver_error,omitempty"`
	FailedIDs   map[string]bool   `json:"failed_ids,omitempty"`
	Out         map[string]int    `json:"out,omitempty"`
	SampleTape  []TapeEntry       `json:"sample_tape,omitempty"`
	SamplePC    string            `json:"sample_pc,omitempty"`
}

var concreteTape []TapeEntry
var stopFirst = os.Getenv("GOSYM_SELFTEST") != ""

// failStop ends the exploration of an instance after that many failed
// assertion checks that are not in a known-finding class (0 = never).
var failStop = envInt("GOSYM_FAILSTOP", 30)

func (w *World) newInterp(ex *Explorer, pkg *ssa.Package) *Interp {
	in := NewInterp(w.prog, ex)
	in.harnessPkg = pkg
	return in
}

// runInit interprets the package initialisers concretely.
func (in *Interp) runInit(pkg *ssa.Package) {
	in.initMode = true
	in.epoch = 0
	defer func() { in.initMode = false }()
	in.initPackage(pkg)
}

func (in *Interp) initPackage(pkg *ssa.Package) {
	if in.initDone[pkg] {
		return
	}
	in.initDone[pkg] = true
	fn := pkg.Func("init")
	if fn == nil {
		return
	}
	func() {
		defer func() {
			if r := recover(); r != nil {
				if pa, ok := r.(pathAbort); ok {
					fmt.Fprintf(os.Stderr, "init %s aborted: %s %s\n", pkg.Pkg.Path(), pa.kind, pa.msg)
					return
				}
				if gp, ok := r.(*goPanic); ok {
					fmt.Fprintf(os.Stderr, "init %s panicked: %s\n", pkg.Pkg.Path(), gp.msg)
					return
				}
				panic(r)
			}
		}()
		in.call(fn, nil, nil, nil)
	}()
}

func runHarness(w *World, solver *Solver, pkgName, harness string, params map[string]int, open map[string]bool, maxPaths int) (res *HarnessResult) {
	t0 := time.Now()
	pkg := w.pkgs[pkgName]
	res = &HarnessResult{Harness: pkgName + "." + harness, Params: params}
	if pkg == nil {
		res.EngineErr = "no harness package " + pkgName
		return res
	}
	fn := pkg.Func(harness)
	if fn == nil {
		res.EngineErr = "no harness function " + harness
		return res
	}
	ex := NewExplorer(solver)
	ex.openKnown = open
	ex.curHarness = res.Harness
	ex.curParams = params
	in := w.newInterp(ex, pkg)
	in.params = params
	in.tape = concreteTape
	ex.setModel(map[*Term]uint64{})
	in.runInit(pkg)
	base := solver.Stats
	defer func() {
		if r := recover(); r != nil {
			if os.Getenv("GOSYM_STACK") != "" {
				fmt.Fprintf(os.Stderr, "engine panic: %v\n%s\n", r, debug.Stack())
				if curIns != nil {
					fmt.Fprintf(os.Stderr, "at %s: %v\n", curIns.Parent(), curIns)
				}
			}
			res.EngineErr = fmt.Sprint(r)
			fillResult(res, in, ex, solver, base, t0)
		}
	}()
	for {
		ex.beginPath()
		in.epoch++
		in.nondetN = 0
		in.totalSteps += in.steps
		in.steps = 0
		in.unwind = 4200
		in.trackShared = false
		in.mapOrderSym = false
		in.pathShared = nil
		in.pathSync = nil
		in.lockDepth = 0
		in.parBranch = 0
		func() {
			defer func() {
				in.rollback()
				in.depth = 0
				in.panicking = in.panicking[:0]
				if r := recover(); r != nil {
					switch x := r.(type) {
					case pathAbort:
						switch x.kind {
						case "infeasible":
							ex.Infeasible++
						case "unwind":
							ex.UnwindFail++
							ex.Samples = append(ex.Samples, "unwind: "+x.msg)
						case "unsupported", "budget":
							ex.Unsupported[x.msg]++
						case "unknown":
							ex.Unknown++
						case "done":
						}
					case *goPanic:
						ex.PathsPanic++
						func() {
							defer func() {
								if r2 := recover(); r2 != nil {
									if _, ok := r2.(pathAbort); !ok {
										panic(r2)
									}
								}
							}()
							ex.Fail("nopanic", x.msg)
						}()
					default:
						panic(r)
					}
				}
			}()
			a0 := ex.Asserts
			in.call(fn, nil, nil, nil)
			ex.PathsDone++
			if ex.sampleTape == nil || ex.Asserts-a0 > ex.sampleScore {
				ex.sampleScore = ex.Asserts - a0
				ex.sampleTape = ex.tape()
				if ex.sampleTape == nil {
					ex.sampleTape = []TapeEntry{}
				}
				var sb strings.Builder
				for i, e := range ex.pc {
					if i >= 6 || sb.Len() > 600 {
						sb.WriteString(fmt.Sprintf(" ∧ … (%d conjuncts)", len(ex.pc)))
						break
					}
					if i > 0 {
						sb.WriteString(" ∧ ")
					}
					sb.WriteString(Describe(e.term, 160))
				}
				ex.samplePC = sb.String()
			}
		}()
		if os.Getenv("GOSYM_PROGRESS") != "" && ex.Paths%200 == 0 {
			fmt.Fprintf(os.Stderr, "progress: paths=%d queries=%d solver=%.1fs slow=%d restarts=%d wall=%.1fs pc=%d\n", ex.Paths, solver.Stats.Queries, solver.Stats.Seconds, solver.Stats.Slow, solver.Stats.Restarts, time.Since(t0).Seconds(), len(ex.pc))
		}
		if stopFirst && len(ex.Failures) > 0 {
			// self-test mode: one witness per instance is enough
			break
		}
		if failStop > 0 && ex.FailHits >= failStop {
			// the instance is red already; a broken tree often turns
			// payload into structure and multiplies paths, so do not
			// spend the budget on more witnesses of the same failure
			ex.Samples = append(ex.Samples, fmt.Sprintf("stopped after %d failed assertion checks (instance is red; exploration not completed)", ex.FailHits))
			break
		}
		if maxPaths > 0 && ex.Paths >= maxPaths {
			ex.Samples = append(ex.Samples, fmt.Sprintf("path limit %d reached", maxPaths))
			ex.UnwindFail++
			break
		}
		if !ex.next() {
			break
		}
	}
	fillResult(res, in, ex, solver, base, t0)
	return res
}


func fillResult(res *HarnessResult, in *Interp, ex *Explorer, solver *Solver, base SolverStats, t0 time.Time) {
	res.Paths = ex.Paths
	res.PathsDone = ex.PathsDone
	res.PathsPanic = ex.PathsPanic
	res.Infeasible = ex.Infeasible
	res.Asserts = ex.Asserts
	res.AssertsTriv = ex.AssertsTrivial
	res.UnwindFail = ex.UnwindFail
	res.Unknown = ex.Unknown + ex.Mismatch
	res.ModelRetries = ex.ModelRetries
	res.Unsupported = ex.Unsupported
	res.Failures = ex.Failures
	res.KnownHits = ex.KnownHits
	res.Reached = ex.Reached
	res.AssertPaths = ex.assertPaths
	res.Shared = ex.shareWrites
	res.Samples = ex.Samples
	res.Steps = in.totalSteps + in.steps
	res.Out = ex.Out
	res.FailedIDs = ex.FailedIDs
	if res.Solver.Errors > 0 {
		res.SolverErr = solver.lastErr
	}
	res.SampleTape = ex.sampleTape
	res.SamplePC = ex.samplePC
	s := solver.Stats
	res.Solver = SolverStats{Queries: s.Queries - base.Queries, Sat: s.Sat - base.Sat, Unsat: s.Unsat - base.Unsat,
		Unknown: s.Unknown - base.Unknown, Errors: s.Errors - base.Errors, Seconds: s.Seconds - base.Seconds,
		Restarts: s.Restarts - base.Restarts, MaxQuery: s.MaxQuery, Slow: s.Slow - base.Slow}
	res.WallS = time.Since(t0).Seconds()
	for f := range in.funcsUsed {
		res.Funcs = append(res.Funcs, f)
	}
	sort.Strings(res.Funcs)
	for f := range in.stubsUsed {
		res.Stubs = append(res.Stubs, f)
	}
	sort.Strings(res.Stubs)
}

func main() {
	if len(os.Args) > 1 {
		switch os.Args[1] {
		case "check":
			os.Exit(checkMain(os.Args[2:]))
		case "worker":
			os.Exit(workerMain())
		case "selftest":
			os.Exit(selftestMain(os.Args[2:]))
		}
	}
	var params multiFlag
	harness := flag.String("harness", "", "pkg.Func")
	flag.Var(&params, "p", "name=value parameter")
	timeout := flag.Int("timeout", 60000, "solver timeout ms")
	maxPaths := flag.Int("maxpaths", 0, "path limit")
	solverBin := flag.String("solver", "z3-new", "solver binary")
	prof := flag.String("cpuprofile", "", "write cpu profile")
	tapeFile := flag.String("tape", "", "witness json: run the harness concretely on its tape")
	flag.Parse()
	if *tapeFile != "" {
		data, err := os.ReadFile(*tapeFile)
		if err != nil {
			panic(err)
		}
		var wj struct {
			Tape []TapeEntry `json:"tape"`
		}
		json.Unmarshal(data, &wj)
		concreteTape = wj.Tape
		if concreteTape == nil {
			concreteTape = []TapeEntry{}
		}
	}
	if *prof != "" {
		f, _ := os.Create(*prof)
		pprof.StartCPUProfile(f)
		defer pprof.StopCPUProfile()
	}
	pm := map[string]int{}
	for _, p := range params {
		kv := strings.SplitN(p, "=", 2)
		v, _ := strconv.Atoi(kv[1])
		pm[kv[0]] = v
	}
	w := loadWorld(nil)
	parts := strings.SplitN(*harness, ".", 2)
	solver := NewSolver([]string{*solverBin, "-in"}, *timeout)
	defer solver.Close()
	res := runHarness(w, solver, parts[0], parts[1], pm, map[string]bool{}, *maxPaths)
	if brStatOn {
		type kv struct {
			k string
			v int
		}
		var l []kv
		for k, v := range brStat {
			l = append(l, kv{k, v})
		}
		sort.Slice(l, func(i, j int) bool { return l[i].v > l[j].v })
		for i, x := range l {
			if i > 40 {
				break
			}
			fmt.Fprintf(os.Stderr, "%8d %s\n", x.v, x.k)
		}
	}
	out, jerr := json.MarshalIndent(res, "", " ")
	if jerr != nil {
		fmt.Fprintln(os.Stderr, "json:", jerr)
	}
	fmt.Println(string(out))
	fmt.Fprintf(os.Stderr, "load %.2fs build %.2fs\n", w.loadS, w.buildS)
}
