package main

// Driver: `gosym check <property> <quick|thorough>` shards harness instances
// over worker processes, replays witnesses natively, prints VIOLATION /
// KNOWN-FINDING lines and writes evidence/<id>.json.

import (
	"bufio"
	"encoding/json"
	"fmt"
	"os"
	"os/exec"
	"path/filepath"
	"runtime"
	"sort"
	"strconv"
	"strings"
	"sync"
	"time"
)

type Job struct {
	Pkg      string         `json:"pkg"`
	Harness  string         `json:"harness"`
	Params   map[string]int `json:"params,omitempty"`
	MaxPaths int            `json:"maxpaths,omitempty"`
	Open     []string       `json:"open,omitempty"`
	Timeout  int            `json:"timeout_ms,omitempty"`
	Prio     int            `json:"-"`              // scheduled first when higher (long instances)
	Prop     string         `json:"prop,omitempty"` // property being decided: assertions "Cnn.…" of other properties are not checked
}

type KnownFinding struct {
	ID       string `json:"id"`
	Property string `json:"property"`
	Status   string `json:"status"` // "open" or "fixed"
	What     string `json:"what"`
	Witness  string `json:"witness,omitempty"`
	Commit   string `json:"commit,omitempty"`
}

func loadKnown() []KnownFinding {
	data, err := os.ReadFile(filepath.Join(verifRoot(), "known_findings.json"))
	if err != nil {
		return nil
	}
	var k struct {
		Findings []KnownFinding `json:"findings"`
	}
	if err := json.Unmarshal(data, &k); err != nil {
		fmt.Fprintln(os.Stderr, "known_findings.json:", err)
		os.Exit(2)
	}
	return k.Findings
}

// workerMain: read jobs (JSON lines) on stdin, write results on stdout.
func workerMain() int {
	var extra map[string][]byte
	if m := os.Getenv("GOSYM_MUTANT"); m != "" {
		extra = loadMutantOverlay(m)
	}
	w := loadWorld(extra)
	solverBin := os.Getenv("GOSYM_SOLVER")
	if solverBin == "" {
		solverBin = "z3-new"
	}
	var solver *Solver
	curTimeout := 0
	sc := bufio.NewScanner(os.Stdin)
	sc.Buffer(make([]byte, 1<<20), 1<<26)
	out := bufio.NewWriter(os.Stdout)
	for sc.Scan() {
		var j Job
		if err := json.Unmarshal(sc.Bytes(), &j); err != nil {
			fmt.Fprintln(os.Stderr, "bad job:", err)
			return 2
		}
		if j.Timeout == 0 {
			j.Timeout = 60000
		}
		// a fresh solver process for every instance: what one instance
		// declared or left behind in z3 must not reach the next one (the
		// order of instances depends on VERIF_SEED; results must not)
		if solver != nil {
			solver.Close()
		}
		solver = NewSolver([]string{solverBin, "-in"}, j.Timeout)
		_ = curTimeout
		open := map[string]bool{}
		for _, o := range j.Open {
			open[o] = true
		}
		curProp = j.Prop
		res := runHarness(w, solver, j.Pkg, j.Harness, j.Params, open, j.MaxPaths)
		if solver.Stats.Restarts > 50 {
			solver.Close()
			solver = nil
		}
		b, err := json.Marshal(res)
		if err != nil {
			b, _ = json.Marshal(&HarnessResult{Harness: j.Pkg + "." + j.Harness, Params: j.Params, EngineErr: "json: " + err.Error()})
		}
		out.Write(b)
		out.WriteByte('\n')
		out.Flush()
	}
	if solver != nil {
		solver.Close()
	}
	return 0
}

func runJobs(jobs []Job, nworkers int, mutant string) []*HarnessResult {
	if nworkers > len(jobs) {
		nworkers = len(jobs)
	}
	if nworkers < 1 {
		nworkers = 1
	}
	results := make([]*HarnessResult, len(jobs))
	var mu sync.Mutex
	next := 0
	var wg sync.WaitGroup
	self, _ := os.Executable()
	for k := 0; k < nworkers; k++ {
		wg.Add(1)
		go func() {
			defer wg.Done()
			cmd := exec.Command(self, "worker")
			cmd.Env = append(os.Environ(), "GOSYM_MUTANT="+mutant)
			cmd.Stderr = os.Stderr
			stdin, _ := cmd.StdinPipe()
			stdout, _ := cmd.StdoutPipe()
			if err := cmd.Start(); err != nil {
				fmt.Fprintln(os.Stderr, "worker start:", err)
				return
			}
			rd := bufio.NewReaderSize(stdout, 1<<20)
			for {
				mu.Lock()
				i := next
				next++
				mu.Unlock()
				if i >= len(jobs) {
					break
				}
				b, _ := json.Marshal(jobs[i])
				stdin.Write(append(b, '\n'))
				line, err := rd.ReadBytes('\n')
				if err != nil {
					results[i] = &HarnessResult{Harness: jobs[i].Pkg + "." + jobs[i].Harness, Params: jobs[i].Params, EngineErr: "worker died: " + err.Error()}
					// restart worker for remaining jobs
					cmd.Wait()
					cmd = exec.Command(self, "worker")
					cmd.Env = append(os.Environ(), "GOSYM_MUTANT="+mutant)
					cmd.Stderr = os.Stderr
					stdin, _ = cmd.StdinPipe()
					stdout, _ = cmd.StdoutPipe()
					if err := cmd.Start(); err != nil {
						return
					}
					rd = bufio.NewReaderSize(stdout, 1<<20)
					continue
				}
				var r HarnessResult
				if err := json.Unmarshal(line, &r); err != nil {
					results[i] = &HarnessResult{Harness: jobs[i].Harness, EngineErr: "bad worker output"}
					continue
				}
				results[i] = &r
			}
			stdin.Close()
			cmd.Wait()
		}()
	}
	wg.Wait()
	return results
}

// ---------------------------------------------------------------- native replay

type ReplayCase struct {
	Name    string         `json:"name"`
	Harness string         `json:"harness"` // pkg.Func
	Params  map[string]int `json:"params"`
	Tape    []TapeEntry    `json:"tape"`
	Expect  string         `json:"expect"` // "pass" or assertion id expected to fail
	Allow   map[string]bool `json:"-"`     // assertion ids the engine itself reported as failing in this instance
}

type ReplayOutcome struct {
	Name     string
	Outcome  string // "pass", "fail", "not-a-witness", "error"
	FailIDs  []string
	Detail   string
	raced    bool
}

const replayTestSrc = `//go:build verif

package PKG

import (
	"encoding/json"
	"fmt"
	"os"
	"runtime/debug"
	"testing"
)

var vHarnessTable = map[string]func(){
TABLE}

func TestVerifReplay(t *testing.T) {
	data, err := os.ReadFile(os.Getenv("VERIF_REPLAY"))
	if err != nil {
		t.Fatal(err)
	}
	var cases []struct {
		Name    string
		Harness string
		Params  map[string]int
		Tape    []vTapeEntry
	}
	if err := json.Unmarshal(data, &cases); err != nil {
		t.Fatal(err)
	}
	for _, c := range cases {
		fn := vHarnessTable[c.Harness]
		if fn == nil {
			continue
		}
		fmt.Printf("VERIF-REPLAY %s BEGIN\n", c.Name)
		func() {
			vTape, vPos, vFailures = c.Tape, 0, nil
			vParams = c.Params
			if vParams == nil {
				vParams = map[string]int{}
			}
			defer func() {
				if r := recover(); r != nil {
					if nw, ok := r.(vNotWitness); ok {
						fmt.Printf("VERIF-REPLAY %s NOT-A-WITNESS %s\n", c.Name, nw.why)
						return
					}
					fmt.Printf("VERIF-REPLAY %s PANIC %v\n%s\n", c.Name, r, debug.Stack())
					fmt.Printf("VERIF-REPLAY %s FAIL nopanic\n", c.Name)
					return
				}
				for _, f := range vFailures {
					fmt.Printf("VERIF-REPLAY %s FAIL %s\n", c.Name, f)
				}
				if len(vFailures) == 0 {
					fmt.Printf("VERIF-REPLAY %s PASS\n", c.Name)
				}
			}()
			fn()
		}()
	}
}
`

// harnessNames lists H* functions per harness dir by scanning sources.
func harnessNames(dir string) []string {
	files, _ := filepath.Glob(filepath.Join(verifRoot(), "harness", dir, "*.go"))
	var names []string
	for _, f := range files {
		data, _ := os.ReadFile(f)
		if strings.Contains(string(data), "verifgen") && os.Getenv("GOSYM_GEN") == "" {
			continue
		}
		for _, l := range strings.Split(string(data), "\n") {
			if strings.HasPrefix(l, "func H") && strings.Contains(l, "() {") {
				n := strings.TrimPrefix(l, "func ")
				n = n[:strings.Index(n, "(")]
				names = append(names, n)
			}
		}
	}
	sort.Strings(names)
	return names
}

// runReplays executes the cases natively (one go test per package) and
// returns outcomes by case name. dir receives the artefacts.
func runReplays(dir string, cases []ReplayCase, mutant string, raceID string) map[string]*ReplayOutcome {
	out := map[string]*ReplayOutcome{}
	os.MkdirAll(dir, 0o755)
	byPkg := map[string][]ReplayCase{}
	for _, c := range cases {
		pkg := strings.SplitN(c.Harness, ".", 2)[0]
		byPkg[pkg] = append(byPkg[pkg], c)
		out[c.Name] = &ReplayOutcome{Name: c.Name, Outcome: "error", Detail: "not run"}
	}
	var extra map[string][]byte
	if mutant != "" {
		extra = loadMutantOverlay(mutant)
	}
	ov, _ := buildOverlay(extra)
	for pkg, cs := range byPkg {
		pdir := filepath.Join(dir, pkg)
		os.MkdirAll(pdir, 0o755)
		// overlay: harness files + generated replay test
		repl := map[string]string{}
		for virt, src := range ov {
			real := filepath.Join(pdir, strings.ReplaceAll(strings.TrimPrefix(virt, repoRoot()+"/"), "/", "__"))
			os.WriteFile(real, src, 0o644)
			repl[virt] = real
		}
		var tab strings.Builder
		for _, n := range harnessNames(pkg) {
			fmt.Fprintf(&tab, "\t%q: %s,\n", pkg+"."+n, n)
		}
		src := strings.Replace(replayTestSrc, "PKG", pkg, 1)
		src = strings.Replace(src, "TABLE", tab.String(), 1)
		testReal := filepath.Join(pdir, "zz_verif_replay_test.go")
		os.WriteFile(testReal, []byte(src), 0o644)
		repl[filepath.Join(repoRoot(), pkgDirs[pkg], "zz_verif_replay_test.go")] = testReal
		ovb, _ := json.MarshalIndent(map[string]interface{}{"Replace": repl}, "", " ")
		ovPath := filepath.Join(pdir, "overlay.json")
		os.WriteFile(ovPath, ovb, 0o644)
		type rc struct {
			Name    string
			Harness string
			Params  map[string]int
			Tape    []TapeEntry
		}
		var rcs []rc
		for _, c := range cs {
			rcs = append(rcs, rc{c.Name, c.Harness, c.Params, c.Tape})
		}
		cb, _ := json.MarshalIndent(rcs, "", " ")
		casePath := filepath.Join(pdir, "cases.json")
		os.WriteFile(casePath, cb, 0o644)
		pkgPath := "./" + pkgDirs[pkg]
		args := []string{"test", "-vet=off", "-count=1", "-tags", buildTags(), "-overlay", ovPath, "-run", "^TestVerifReplay$", "-timeout", "20m", "-v"}
		if raceID != "" {
			args = append(args, "-race")
		}
		args = append(args, pkgPath)
		cmd := exec.Command("go", args...)
		cmd.Dir = repoRoot()
		cmd.Env = append(os.Environ(), "GOFLAGS=-mod=mod", "GOPROXY=off", "GOSUMDB=off", "GOTOOLCHAIN=local", "VERIF_REPLAY="+casePath)
		outb, err := cmd.CombinedOutput()
		os.WriteFile(filepath.Join(pdir, "replay.log"), outb, 0o644)
		script := fmt.Sprintf("#!/bin/sh\n# re-run this replay against the current /repo tree\ncd %s && GOFLAGS=-mod=mod GOPROXY=off GOSUMDB=off GOTOOLCHAIN=local VERIF_REPLAY=%s go test -vet=off -count=1 -tags %s -overlay %s -run '^TestVerifReplay$' -v %s\n", repoRoot(), casePath, buildTags(), ovPath, pkgPath)
		os.WriteFile(filepath.Join(pdir, "replay.sh"), []byte(script), 0o755)
		seen := map[string]bool{}
		cur := ""
		for _, l := range strings.Split(string(outb), "\n") {
			l = strings.TrimSpace(l)
			if raceID != "" && strings.Contains(l, "WARNING: DATA RACE") && cur != "" {
				if o := out[cur]; o != nil {
					has := false
					for _, id := range o.FailIDs {
						if id == raceID {
							has = true
						}
					}
					if !has {
						o.FailIDs = append(o.FailIDs, raceID)
						o.raced = true
					}
				}
			}
			if !strings.HasPrefix(l, "VERIF-REPLAY ") {
				continue
			}
			f := strings.Fields(l)
			if len(f) < 3 {
				continue
			}
			o := out[f[1]]
			if o == nil {
				continue
			}
			seen[f[1]] = true
			switch f[2] {
			case "BEGIN":
				cur = f[1]
			case "PASS":
				o.Outcome = "pass"
				if o.raced {
					o.Outcome = "fail"
				}
				o.Detail = ""
			case "FAIL":
				o.Outcome = "fail"
				o.Detail = ""
				if len(f) > 3 {
					o.FailIDs = append(o.FailIDs, f[3])
				}
			case "NOT-A-WITNESS":
				o.Outcome = "not-a-witness"
				o.Detail = strings.Join(f[3:], " ")
			case "PANIC":
				o.Detail = strings.Join(f[3:], " ")
			}
		}
		if err != nil && len(seen) == 0 {
			tail := string(outb)
			if len(tail) > 2000 {
				tail = tail[len(tail)-2000:]
			}
			for _, c := range cs {
				out[c.Name].Detail = "go test failed: " + tail
			}
		}
	}
	return out
}

// ---------------------------------------------------------------- check

type Evidence struct {
	PropertyID  string                 `json:"property_id"`
	Tier        string                 `json:"tier"`
	Seed        int                    `json:"seed"`
	Level       string                 `json:"level"`
	Coverage    map[string]interface{} `json:"coverage"`
	Assumptions []string               `json:"assumptions"`
	WallS       float64                `json:"wall_s"`
	Violations  int                    `json:"violations"`
}

// boundsText is the registered bound of the tier; for checks with a rotating
// quick tier both tiers are described from the "quick" text.
func boundsText(def *CheckDef, tier string) interface{} {
	if def.Rotate == nil {
		return def.Bounds[tier]
	}
	var hs []string
	for h, m := range def.Rotate {
		hs = append(hs, fmt.Sprintf("%s (1 in %d)", h, m))
	}
	sort.Strings(hs)
	if tier == "quick" {
		return fmt.Sprintf("a rotating sample of the instance list described next: of the instances of %s the quick tier runs those selected by VERIF_SEED plus the core messages (file_id, session, lap, record, event, device_info, activity, the unknown message number) — successive runs with different seeds cover the list; everything else in the list runs every time. Instance list: %v", strings.Join(hs, ", "), def.Bounds["quick"])
	}
	return fmt.Sprintf("the whole instance list: %v", def.Bounds["quick"])
}

func checkMain(args []string) int {
	if len(args) < 1 {
		fmt.Fprintln(os.Stderr, "usage: gosym check <property> [quick|thorough] [--replay path] [--mutant id]")
		return 2
	}
	prop := args[0]
	tier := "quick"
	mutant := ""
	replayPath := ""
	for i := 1; i < len(args); i++ {
		switch args[i] {
		case "quick", "thorough":
			tier = args[i]
		case "--mutant":
			i++
			mutant = args[i]
		case "--replay":
			i++
			replayPath = args[i]
		}
	}
	if t := os.Getenv("VERIF_TIER"); t == "quick" || t == "thorough" {
		if len(args) < 2 {
			tier = t
		}
	}
	if replayPath != "" {
		return replayMain(prop, replayPath)
	}
	def := checkDefs[prop]
	if def == nil {
		fmt.Fprintln(os.Stderr, "unknown property", prop)
		return 2
	}
	seed := 0
	if s := os.Getenv("VERIF_SEED"); s != "" {
		seed, _ = strconv.Atoi(s)
	}
	t0 := time.Now()
	var open []string
	var openKF []KnownFinding
	for _, k := range loadKnown() {
		if k.Property == prop && k.Status == "open" {
			open = append(open, k.ID)
			openKF = append(openKF, k)
		}
	}
	if def.Gen != nil {
		os.Setenv("GOSYM_GEN", "1")
		if err := def.Gen(); err != nil {
			fmt.Printf("INCONCLUSIVE property=%s code generation failed: %v\n", prop, err)
			return 2
		}
	}
	// meta run: concrete facts about the tree the job list depends on
	meta := map[string]int{}
	if def.Meta != "" {
		parts := strings.SplitN(def.Meta, ".", 2)
		mr := runJobs([]Job{{Pkg: parts[0], Harness: parts[1]}}, 1, mutant)
		if mr[0] == nil || mr[0].EngineErr != "" || len(mr[0].Unsupported) > 0 {
			fmt.Printf("INCONCLUSIVE property=%s meta harness failed: %+v\n", prop, mr[0])
			return 2
		}
		meta = mr[0].Out
	}
	curProp = prop
	jobTier := tier
	if def.Rotate != nil {
		jobTier = "quick" // thorough = the whole quick instance list
	}
	jobs := def.Jobs(jobTier, meta)
	if tier == "quick" && def.Rotate != nil {
		jobs = rotateJobs(jobs, def.Rotate, seed)
	}
	for i := range jobs {
		jobs[i].Open = open
		jobs[i].Prop = prop
		if jobs[i].Timeout == 0 {
			if tier == "thorough" {
				jobs[i].Timeout = 300000
			} else {
				jobs[i].Timeout = 90000
			}
		}
	}
	if flt := os.Getenv("GOSYM_JOBFILTER"); flt != "" {
		var kept []Job
		for _, j := range jobs {
			ok := true
			for _, kv := range strings.Split(flt, ",") {
				p := strings.SplitN(kv, "=", 2)
				if len(p) != 2 {
					continue
				}
				want, _ := strconv.Atoi(p[1])
				if v, has := j.Params[p[0]]; has && v != want {
					ok = false
				}
			}
			if ok {
				kept = append(kept, j)
			}
		}
		jobs = kept
	}
	// seed only permutes the order in which instances are sharded
	if seed != 0 {
		r := uint64(seed)*6364136223846793005 + 1442695040888963407
		for i := len(jobs) - 1; i > 0; i-- {
			r = r*6364136223846793005 + 1442695040888963407
			k := int((r >> 33) % uint64(i+1))
			jobs[i], jobs[k] = jobs[k], jobs[i]
		}
	}
	sort.SliceStable(jobs, func(a, b int) bool { return jobs[a].Prio > jobs[b].Prio })
	nw := runtime.NumCPU()
	if s := os.Getenv("GOSYM_WORKERS"); s != "" {
		nw, _ = strconv.Atoi(s)
	}
	results := runJobs(jobs, nw, mutant)

	workDir := filepath.Join(verifRoot(), "work", prop)
	if mutant != "" {
		workDir = filepath.Join(verifRoot(), "work", "mutants", prop+"-"+mutant)
	}
	os.RemoveAll(workDir)
	os.MkdirAll(workDir, 0o755)

	// per-instance summary for diagnostics
	{
		type js struct {
			Harness string
			Params  map[string]int
			Paths   int
			Queries int
			SolverS float64
			WallS   float64
			Steps   int64
			MaxQ    float64
			Slow    int
		}
		var l []js
		for _, r := range results {
			if r != nil {
				l = append(l, js{r.Harness, r.Params, r.Paths, r.Solver.Queries, r.Solver.Seconds, r.WallS, r.Steps, r.Solver.MaxQuery, r.Solver.Slow})
			}
		}
		b, _ := json.MarshalIndent(l, "", " ")
		os.WriteFile(filepath.Join(workDir, "jobs.json"), b, 0o644)
	}
	// aggregate
	inconclusive := []string{}
	var totalPaths, totalQueries, totalAsserts, totalTriv, unwind, unknown, pathsDone int
	var solverS float64
	var steps int64
	modelRetries := 0
	funcs := map[string]bool{}
	stubs := map[string]bool{}
	reached := map[string]int{}
	assertPaths := map[string]int{}
	shared := map[string]int{}
	var cases []ReplayCase
	type pendingFail struct {
		f    Failure
		name string
	}
	var pend []pendingFail
	var samples []interface{}
	knownHits := map[string]int{}
	nondistinct := 0
	for i, r := range results {
		if r == nil {
			inconclusive = append(inconclusive, fmt.Sprintf("job %d: no result", i))
			continue
		}
		if r.EngineErr != "" {
			inconclusive = append(inconclusive, r.Harness+": engine error: "+r.EngineErr)
		}
		for msg, n := range r.Unsupported {
			inconclusive = append(inconclusive, fmt.Sprintf("%s: unsupported x%d: %s", r.Harness, n, msg))
		}
		if r.UnwindFail > 0 {
			inconclusive = append(inconclusive, fmt.Sprintf("%s %v: %d unwinding/limit failures %v", r.Harness, r.Params, r.UnwindFail, r.Samples))
		}
		if r.Unknown > 0 {
			inconclusive = append(inconclusive, fmt.Sprintf("%s %v: %d unknown solver answers / model mismatches %v solver=%+v", r.Harness, r.Params, r.Unknown, r.Samples, r.Solver))
		}
		if r.Solver.Errors > 0 {
			inconclusive = append(inconclusive, fmt.Sprintf("%s: %d solver errors: %s", r.Harness, r.Solver.Errors, r.SolverErr))
		}
		totalPaths += r.Paths
		modelRetries += r.ModelRetries
		pathsDone += r.PathsDone
		totalQueries += r.Solver.Queries
		totalAsserts += r.Asserts
		totalTriv += r.AssertsTriv
		unwind += r.UnwindFail
		unknown += r.Unknown
		solverS += r.Solver.Seconds
		steps += r.Steps
		nondistinct += r.Asserts
		for _, f := range r.Funcs {
			funcs[f] = true
		}
		for _, f := range r.Stubs {
			stubs[f] = true
		}
		for k, v := range r.Reached {
			reached[k] += v
		}
		for k, v := range r.AssertPaths {
			assertPaths[k] += v
		}
		for k, v := range r.Shared {
			shared[k] += v
		}
		for k, v := range r.KnownHits {
			knownHits[k] += v
		}
		for k, f := range r.Failures {
			name := fmt.Sprintf("w%d_%d", i, k)
			expect := f.ID
			cases = append(cases, ReplayCase{Name: name, Harness: r.Harness, Params: r.Params, Tape: f.Tape, Expect: expect})
			pend = append(pend, pendingFail{f, name})
		}
		if r.SampleTape != nil && len(samples) < 400 {
			name := fmt.Sprintf("s%d", i)
			allow := map[string]bool{}
			for id := range r.FailedIDs {
				allow[id] = true
			}
			cases = append(cases, ReplayCase{Name: name, Harness: r.Harness, Params: r.Params, Tape: r.SampleTape, Expect: "pass", Allow: allow})
		}
		if len(samples) < 12 && r.SampleTape != nil {
			samples = append(samples, map[string]interface{}{"harness": r.Harness, "params": r.Params, "paths": r.Paths, "solver_queries": r.Solver.Queries,
				"a_model_on_one_completed_path": r.SampleTape, "path_condition": r.SamplePC})
		}
	}
	// vacuity: every harness must reach "end" and each declared assertion must be reached
	for _, r := range results {
		if r != nil && r.EngineErr == "" && r.Reached["end"] == 0 && r.PathsPanic == 0 && len(r.Failures) == 0 {
			inconclusive = append(inconclusive, fmt.Sprintf("%s %v: VACUOUS (no path reaches the end of the harness)", r.Harness, r.Params))
		}
	}
	for _, want := range def.MustReach {
		if reached[want] == 0 && assertPaths[want] == 0 {
			inconclusive = append(inconclusive, "VACUOUS: label/assertion "+want+" never reached")
		}
	}

	// native replays
	outcomes := map[string]*ReplayOutcome{}
	if len(cases) > 0 && os.Getenv("GOSYM_NOREPLAY") == "" {
		outcomes = runReplays(workDir, cases, mutant, def.RaceID)
	}
	violations := 0
	kfSeen := map[string]bool{}
	witnessesReplayed := 0
	samplesReplayed := 0
	for _, c := range cases {
		o := outcomes[c.Name]
		if o == nil {
			continue
		}
		if c.Expect == "pass" {
			samplesReplayed++
			switch o.Outcome {
			case "pass":
			case "fail":
				bad := false
				for _, id := range o.FailIDs {
					if !c.Allow[id] && !foreignAssertion(id) {
						bad = true
					}
				}
				if bad {
					inconclusive = append(inconclusive, fmt.Sprintf("encoding mismatch: sample path of %s %v fails natively: %v", c.Harness, c.Params, o.FailIDs))
				}
			default:
				inconclusive = append(inconclusive, fmt.Sprintf("encoding mismatch: sample path of %s %v: native %s %s", c.Harness, c.Params, o.Outcome, o.Detail))
			}
		}
	}
	var violationLines []string
	for _, p := range pend {
		o := outcomes[p.name]
		witnessesReplayed++
		confirmed := false
		if o != nil && o.Outcome == "fail" {
			for _, id := range o.FailIDs {
				if id == p.f.ID {
					confirmed = true
				}
			}
		}
		if os.Getenv("GOSYM_NOREPLAY") != "" {
			confirmed = true
		}
		if def.NoNativeReplay[p.f.ID] {
			confirmed = true
		}
		if !confirmed {
			d := "no outcome"
			if o != nil {
				d = o.Outcome + " " + strings.Join(o.FailIDs, ",") + " " + o.Detail
			}
			inconclusive = append(inconclusive, fmt.Sprintf("encoding mismatch: counterexample for %s in %s %v does not reproduce natively (%s)", p.f.ID, p.f.Harness, p.f.Params, d))
			ub, _ := json.MarshalIndent(map[string]interface{}{"property": prop, "assertion": p.f.ID, "harness": p.f.Harness, "params": p.f.Params, "tape": p.f.Tape, "msg": p.f.Msg}, "", " ")
			os.WriteFile(filepath.Join(workDir, "unconfirmed_"+p.name+".json"), ub, 0o644)
			continue
		}
		pkg := strings.SplitN(p.f.Harness, ".", 2)[0]
		rp := filepath.Join(workDir, pkg, "replay.sh")
		// single-case artefact for this witness
		one := filepath.Join(workDir, p.name+".json")
		ob, _ := json.MarshalIndent(map[string]interface{}{"property": prop, "assertion": p.f.ID, "harness": p.f.Harness, "params": p.f.Params, "tape": p.f.Tape, "msg": p.f.Msg, "known": p.f.Known, "rerun": rp}, "", " ")
		os.WriteFile(one, ob, 0o644)
		if p.f.Known != "" {
			if !kfSeen[p.f.Known] {
				kfSeen[p.f.Known] = true
				what := p.f.Known
				for _, k := range openKF {
					if k.ID == p.f.Known {
						what = k.ID + " " + k.What
					}
				}
				fmt.Printf("KNOWN-FINDING: property=%s %s (assertion %s, witness %s)\n", prop, what, p.f.ID, one)
			}
			continue
		}
		violations++
		violationLines = append(violationLines, fmt.Sprintf("VIOLATION property=%s replay=%s", prop, one))
		fmt.Printf("  assertion %s failed in %s %v: %s\n", p.f.ID, p.f.Harness, p.f.Params, p.f.Msg)
	}
	for _, k := range openKF {
		if !kfSeen[k.ID] {
			fmt.Printf("NOTE: open known finding %s did not reproduce on this tree (%s)\n", k.ID, k.What)
		}
	}

	// evidence
	var fl, sl []string
	for f := range funcs {
		fl = append(fl, f)
	}
	for f := range stubs {
		sl = append(sl, f)
	}
	sort.Strings(fl)
	sort.Strings(sl)
	if len(samples) == 0 {
		samples = append(samples, map[string]interface{}{"note": "no completed path produced a sample", "jobs": len(jobs)})
	}
	cov := map[string]interface{}{
		"states":                        totalPaths,
		"transitions":                   totalQueries,
		"traces_validated_against_impl": samplesReplayed + witnessesReplayed,
		"samples":                       samples,
		"evaluations":                   totalQueries,
		"distinct_nontrivial":           nondistinct,
		"rule":                          "states = feasible paths of the harness through the real SSA (each a distinct path condition); transitions = solver queries discharged; distinct_nontrivial = assertion checks whose condition stayed symbolic after folding (each a distinct path x assertion pair decided by the solver over all values); traces_validated = paths whose solver model was replayed natively (go test -overlay) with the same verdict",
		"instances":                     len(jobs),
		"paths_completed":               pathsDone,
		"assert_checks_folded_to_true":  totalTriv,
		"unwind_failures":               unwind,
		"unknown_queries":               unknown,
		"solver_models_rejected_and_requeried": modelRetries,
		"solver_s":                      solverS,
		"ssa_instructions_interpreted":  steps,
		"functions_encoded":             fl,
		"stubs_used":                    sl,
		"bounds":                        boundsText(def, tier),
		"outside_claim":                 def.Outside,
		"labels_reached":                reached,
		"assertions_reached_paths":      assertPaths,
		"known_findings_hit":            knownHits,
		"shared_writes":                 shared,
		"inconclusive":                  inconclusive,
		"solver_versions":               solverVersions(),
		"witnesses_replayed":            witnessesReplayed,
		"samples_replayed":              samplesReplayed,
		"exhaustive":                    false,
		"mutant":                        mutant,
	}
	if def.Level == "other" {
		cov["explanation"] = def.Explanation
	}
	ev := Evidence{PropertyID: prop, Tier: tier, Seed: seed, Level: def.Level, Coverage: cov, Assumptions: def.Assumptions, WallS: time.Since(t0).Seconds(), Violations: violations}
	eb, _ := json.MarshalIndent(ev, "", " ")
	if mutant == "" && os.Getenv("GOSYM_SEEDEVAL") == "" {
		os.MkdirAll(filepath.Join(verifRoot(), "evidence"), 0o755)
		os.WriteFile(filepath.Join(verifRoot(), "evidence", prop+".json"), eb, 0o644)
	} else {
		os.WriteFile(filepath.Join(workDir, "evidence.json"), eb, 0o644)
	}
	fmt.Printf("%s %s: %d instances, %d paths, %d solver queries (%.1fs), %d symbolic assertion checks, %d native replays, wall %.1fs\n",
		prop, tier, len(jobs), totalPaths, totalQueries, solverS, totalAsserts, samplesReplayed+witnessesReplayed, time.Since(t0).Seconds())
	for _, l := range violationLines {
		fmt.Println(l)
	}
	if violations > 0 {
		return 1
	}
	if len(inconclusive) > 0 {
		for i, m := range inconclusive {
			if i >= 20 {
				fmt.Printf("  ... %d more\n", len(inconclusive)-20)
				break
			}
			fmt.Println("INCONCLUSIVE:", m)
		}
		return 2
	}
	return 0
}

func solverVersions() map[string]string {
	v := map[string]string{}
	for _, b := range []string{"z3-new", "z3"} {
		out, err := exec.Command(b, "--version").Output()
		if err == nil {
			v[b] = strings.TrimSpace(string(out))
		}
	}
	return v
}

// replayMain re-runs a recorded witness against the current tree.
func replayMain(prop, path string) int {
	data, err := os.ReadFile(path)
	if err != nil {
		fmt.Fprintln(os.Stderr, err)
		return 2
	}
	var w struct {
		Assertion string         `json:"assertion"`
		Harness   string         `json:"harness"`
		Params    map[string]int `json:"params"`
		Tape      []TapeEntry    `json:"tape"`
	}
	if err := json.Unmarshal(data, &w); err != nil {
		fmt.Fprintln(os.Stderr, err)
		return 2
	}
	dir := filepath.Join(verifRoot(), "work", "replay-"+prop)
	os.RemoveAll(dir)
	raceID := ""
	if d := checkDefs[prop]; d != nil {
		raceID = d.RaceID
	}
	oc := runReplays(dir, []ReplayCase{{Name: "r0", Harness: w.Harness, Params: w.Params, Tape: w.Tape, Expect: w.Assertion}}, "", raceID)
	o := oc["r0"]
	fmt.Printf("replay of %s in %s: %s %v %s\n", w.Assertion, w.Harness, o.Outcome, o.FailIDs, o.Detail)
	if o.Outcome == "fail" {
		fmt.Printf("VIOLATION property=%s replay=%s\n", prop, path)
		return 1
	}
	if o.Outcome == "pass" {
		return 0
	}
	return 2
}
