package main

// Trusted models: reflect (M-reflect), encoding/binary.Write (M-binary-write),
// fmt/strconv stubs, errors.Is, math bit casts, and the harness API.

import (
	"fmt"
	"go/types"
	"math"
	"strings"

	"golang.org/x/tools/go/ssa"
)

const (
	kInvalid = iota
	kBool
	kInt
	kInt8
	kInt16
	kInt32
	kInt64
	kUint
	kUint8
	kUint16
	kUint32
	kUint64
	kUintptr
	kFloat32
	kFloat64
	kComplex64
	kComplex128
	kArray
	kChan
	kFunc
	kInterface
	kMap
	kPointer
	kSlice
	kString
	kStruct
	kUnsafePointer
)

func kindOf(t types.Type) int {
	if t == nil {
		return kInvalid
	}
	switch u := under(t).(type) {
	case *types.Basic:
		switch u.Kind() {
		case types.Bool:
			return kBool
		case types.Int:
			return kInt
		case types.Int8:
			return kInt8
		case types.Int16:
			return kInt16
		case types.Int32:
			return kInt32
		case types.Int64:
			return kInt64
		case types.Uint:
			return kUint
		case types.Uint8:
			return kUint8
		case types.Uint16:
			return kUint16
		case types.Uint32:
			return kUint32
		case types.Uint64:
			return kUint64
		case types.Uintptr:
			return kUintptr
		case types.Float32:
			return kFloat32
		case types.Float64:
			return kFloat64
		case types.String:
			return kString
		case types.UnsafePointer:
			return kUnsafePointer
		}
	case *types.Array:
		return kArray
	case *types.Chan:
		return kChan
	case *types.Signature:
		return kFunc
	case *types.Interface:
		return kInterface
	case *types.Map:
		return kMap
	case *types.Pointer:
		return kPointer
	case *types.Slice:
		return kSlice
	case *types.Struct:
		return kStruct
	}
	return kInvalid
}

var rtypeMarker types.Type = types.Typ[types.UnsafePointer]

func rtypeIface(t types.Type) IfaceV {
	return IfaceV{t: rtypeMarker, v: RTypeV{t}}
}

func (in *Interp) rvLoad(rv RVal) Value {
	if rv.c != nil {
		return in.loadCell(rv.c)
	}
	return rv.v
}

func (in *Interp) rvMustValid(rv RVal, m string) {
	if rv.t == nil {
		in.goPanicf("reflect: call of reflect.Value.%s on zero Value", m)
	}
}

func (in *Interp) rvMustSettable(rv RVal, m string) {
	in.rvMustValid(rv, m)
	if rv.ro {
		in.goPanicf("reflect: reflect.Value.%s using value obtained using unexported field", m)
	}
	if rv.c == nil {
		in.goPanicf("reflect: reflect.Value.%s using unaddressable value", m)
	}
}

func (in *Interp) concInt(v Value, what string) int {
	t := term(v)
	return int(int64(in.ex.Choose(t)))
}

func (in *Interp) rvElem(rv RVal) RVal {
	switch kindOf(rv.t) {
	case kPointer:
		p := in.rvLoad(rv).(Ptr)
		if p.c == nil {
			return RVal{}
		}
		return RVal{t: under(rv.t).(*types.Pointer).Elem(), c: in.resolve(p), ro: rv.ro}
	case kInterface:
		iv := in.rvLoad(rv).(IfaceV)
		if iv.t == nil {
			return RVal{}
		}
		return RVal{t: iv.t, v: iv.v, ro: rv.ro}
	}
	in.goPanicf("reflect: call of reflect.Value.Elem on %s Value", kindName(kindOf(rv.t)))
	return RVal{}
}

func kindName(k int) string {
	names := []string{"invalid", "bool", "int", "int8", "int16", "int32", "int64", "uint", "uint8", "uint16", "uint32", "uint64", "uintptr", "float32", "float64", "complex64", "complex128", "array", "chan", "func", "interface", "map", "ptr", "slice", "string", "struct", "unsafe.Pointer"}
	if k < len(names) {
		return names[k]
	}
	return "?"
}

func (in *Interp) reflectTypeMethod(rt RTypeV, name string, args []Value) Value {
	switch name {
	case "Kind":
		return U64(uint64(kindOf(rt.t)))
	case "Elem":
		switch u := under(rt.t).(type) {
		case *types.Pointer:
			return rtypeIface(u.Elem())
		case *types.Slice:
			return rtypeIface(u.Elem())
		case *types.Array:
			return rtypeIface(u.Elem())
		case *types.Map:
			return rtypeIface(u.Elem())
		}
		in.goPanicf("reflect: Elem of invalid type %s", typeString(rt.t))
	case "Name":
		if n, ok := rt.t.(*types.Named); ok {
			return constString(n.Obj().Name())
		}
		if b, ok := rt.t.(*types.Basic); ok {
			return constString(b.Name())
		}
		return constString("")
	case "String":
		return StringV{opaque: "reflect.Type." + name + "(" + typeString(rt.t) + ")"}
	case "NumField":
		if st, ok := under(rt.t).(*types.Struct); ok {
			return I64(int64(st.NumFields()))
		}
		in.goPanicf("reflect: NumField of non-struct type %s", typeString(rt.t))
	case "Comparable":
		return Bool(types.Comparable(rt.t))
	case "Size":
		return U64(uint64(sizeofType(rt.t)))
	}
	in.unsupported("reflect.Type method " + name)
	return nil
}

func sizeofType(t types.Type) int64 {
	return types.SizesFor("gc", "amd64").Sizeof(t)
}

func intKindWidth(k int) (w int, signed bool, ok bool) {
	switch k {
	case kInt, kInt64:
		return 64, true, true
	case kInt8:
		return 8, true, true
	case kInt16:
		return 16, true, true
	case kInt32:
		return 32, true, true
	case kUint, kUint64, kUintptr:
		return 64, false, true
	case kUint8:
		return 8, false, true
	case kUint16:
		return 16, false, true
	case kUint32:
		return 32, false, true
	}
	return 0, false, false
}

func rv(v Value) RVal { return v.(RVal) }

func makeIntrinsics() map[string]intrinsic {
	m := map[string]intrinsic{}

	// ---------------------------------------------------------- reflect
	m["reflect.ValueOf"] = func(in *Interp, _ *frame, _ *ssa.CallCommon, a []Value) Value {
		iv := a[0].(IfaceV)
		if iv.t == nil {
			return RVal{}
		}
		return RVal{t: iv.t, v: iv.v}
	}
	m["reflect.TypeOf"] = func(in *Interp, _ *frame, _ *ssa.CallCommon, a []Value) Value {
		iv := a[0].(IfaceV)
		if iv.t == nil {
			return IfaceV{}
		}
		return rtypeIface(iv.t)
	}
	m["reflect.Indirect"] = func(in *Interp, _ *frame, _ *ssa.CallCommon, a []Value) Value {
		r := rv(a[0])
		if kindOf(r.t) != kPointer {
			return r
		}
		return in.rvElem(r)
	}
	m["(reflect.Value).Elem"] = func(in *Interp, _ *frame, _ *ssa.CallCommon, a []Value) Value {
		return in.rvElem(rv(a[0]))
	}
	m["(reflect.Value).Addr"] = func(in *Interp, _ *frame, _ *ssa.CallCommon, a []Value) Value {
		r := rv(a[0])
		if r.t == nil || r.c == nil {
			in.goPanicf("reflect.Value.Addr of unaddressable value")
		}
		return RVal{t: types.NewPointer(r.t), v: Ptr{c: r.c}, ro: r.ro}
	}
	m["(reflect.Value).Kind"] = func(in *Interp, _ *frame, _ *ssa.CallCommon, a []Value) Value {
		return U64(uint64(kindOf(rv(a[0]).t)))
	}
	m["(reflect.Value).IsValid"] = func(in *Interp, _ *frame, _ *ssa.CallCommon, a []Value) Value {
		return Bool(rv(a[0]).t != nil)
	}
	m["(reflect.Value).Type"] = func(in *Interp, _ *frame, _ *ssa.CallCommon, a []Value) Value {
		r := rv(a[0])
		in.rvMustValid(r, "Type")
		return rtypeIface(r.t)
	}
	m["(reflect.Value).CanSet"] = func(in *Interp, _ *frame, _ *ssa.CallCommon, a []Value) Value {
		r := rv(a[0])
		return Bool(r.t != nil && r.c != nil && !r.ro)
	}
	m["(reflect.Value).CanAddr"] = func(in *Interp, _ *frame, _ *ssa.CallCommon, a []Value) Value {
		r := rv(a[0])
		return Bool(r.t != nil && r.c != nil)
	}
	m["(reflect.Value).CanInterface"] = func(in *Interp, _ *frame, _ *ssa.CallCommon, a []Value) Value {
		r := rv(a[0])
		in.rvMustValid(r, "CanInterface")
		return Bool(!r.ro)
	}
	m["(reflect.Value).NumField"] = func(in *Interp, _ *frame, _ *ssa.CallCommon, a []Value) Value {
		r := rv(a[0])
		st, ok := under0(r.t).(*types.Struct)
		if !ok {
			in.goPanicf("reflect: call of reflect.Value.NumField on %s Value", kindName(kindOf(r.t)))
		}
		return I64(int64(st.NumFields()))
	}
	m["(reflect.Value).Field"] = func(in *Interp, _ *frame, _ *ssa.CallCommon, a []Value) Value {
		r := rv(a[0])
		st, ok := under0(r.t).(*types.Struct)
		if !ok {
			in.goPanicf("reflect: call of reflect.Value.Field on %s Value", kindName(kindOf(r.t)))
		}
		it := term(a[1])
		if !in.ex.Branch(Ult(it, U64(uint64(st.NumFields())))) {
			in.goPanicf("reflect: Field index out of range")
		}
		i := in.concInt(a[1], "Field index")
		f := st.Field(i)
		out := RVal{t: f.Type(), ro: r.ro || !f.Exported()}
		if r.c != nil {
			out.c = r.c.kids[i]
		} else {
			out.v = r.v.(*StructV).f[i]
		}
		return out
	}
	m["(reflect.Value).Len"] = func(in *Interp, _ *frame, _ *ssa.CallCommon, a []Value) Value {
		r := rv(a[0])
		switch kindOf(r.t) {
		case kSlice:
			s := in.rvLoad(r).(SliceV)
			if s.arr == nil {
				return I64(0)
			}
			return s.ln
		case kArray:
			return I64(under(r.t).(*types.Array).Len())
		case kString:
			s := in.rvLoad(r).(StringV)
			if !s.isPlain() {
				in.unsupported("reflect Len of opaque string")
			}
			return I64(int64(len(s.b)))
		case kMap:
			mv := in.rvLoad(r).(MapV)
			if mv.m == nil {
				return I64(0)
			}
			return I64(int64(len(mv.m.entries)))
		}
		in.goPanicf("reflect: call of reflect.Value.Len on %s Value", kindName(kindOf(r.t)))
		return nil
	}
	m["(reflect.Value).Index"] = func(in *Interp, _ *frame, _ *ssa.CallCommon, a []Value) Value {
		r := rv(a[0])
		it := term(a[1])
		switch kindOf(r.t) {
		case kSlice:
			s := in.rvLoad(r).(SliceV)
			ln := s.ln
			if s.arr == nil {
				ln = I64(0)
			}
			if !in.ex.Branch(Ult(it, ln)) {
				in.goPanicf("reflect: slice index out of range")
			}
			pos := in.ex.Choose(Add(s.off, it))
			return RVal{t: under(r.t).(*types.Slice).Elem(), c: s.arr.kids[pos], ro: r.ro}
		case kArray:
			at := under(r.t).(*types.Array)
			if !in.ex.Branch(Ult(it, U64(uint64(at.Len())))) {
				in.goPanicf("reflect: array index out of range")
			}
			i := in.ex.Choose(it)
			if r.c != nil {
				return RVal{t: at.Elem(), c: r.c.kids[i], ro: r.ro}
			}
			return RVal{t: at.Elem(), v: r.v.(*ArrayV).e[i], ro: r.ro}
		case kString:
			s := in.rvLoad(r).(StringV)
			if !in.ex.Branch(Ult(it, U64(uint64(len(s.b))))) {
				in.goPanicf("reflect: string index out of range")
			}
			i := in.ex.Choose(it)
			return RVal{t: types.Typ[types.Uint8], v: s.b[i], ro: r.ro}
		}
		in.goPanicf("reflect: call of reflect.Value.Index on %s Value", kindName(kindOf(r.t)))
		return nil
	}
	m["(reflect.Value).IsNil"] = func(in *Interp, _ *frame, _ *ssa.CallCommon, a []Value) Value {
		r := rv(a[0])
		switch kindOf(r.t) {
		case kPointer, kUnsafePointer, kChan:
			return Bool(in.rvLoad(r).(Ptr).c == nil)
		case kSlice:
			return Bool(in.rvLoad(r).(SliceV).arr == nil)
		case kMap:
			return Bool(in.rvLoad(r).(MapV).m == nil)
		case kFunc:
			return Bool(in.rvLoad(r).(*FuncV) == nil)
		case kInterface:
			return Bool(in.rvLoad(r).(IfaceV).t == nil)
		}
		in.goPanicf("reflect: call of reflect.Value.IsNil on %s Value", kindName(kindOf(r.t)))
		return nil
	}
	m["(reflect.Value).IsZero"] = func(in *Interp, _ *frame, _ *ssa.CallCommon, a []Value) Value {
		r := rv(a[0])
		in.rvMustValid(r, "IsZero")
		return in.isZeroTerm(in.rvLoad(r), r.t)
	}
	m["(reflect.Value).Interface"] = func(in *Interp, _ *frame, _ *ssa.CallCommon, a []Value) Value {
		r := rv(a[0])
		in.rvMustValid(r, "Interface")
		if r.ro {
			in.goPanicf("reflect.Value.Interface: cannot return value obtained from unexported field or method")
		}
		v := in.rvLoad(r)
		if kindOf(r.t) == kInterface {
			return v
		}
		return IfaceV{t: r.t, v: v}
	}
	m["(reflect.Value).Set"] = func(in *Interp, _ *frame, _ *ssa.CallCommon, a []Value) Value {
		r, x := rv(a[0]), rv(a[1])
		in.rvMustSettable(r, "Set")
		in.rvMustValid(x, "Set")
		if x.ro {
			in.goPanicf("reflect: reflect.Value.Set using value obtained using unexported field")
		}
		if !types.AssignableTo(x.t, r.t) {
			in.goPanicf("reflect.Set: value of type %s is not assignable to type %s", typeString(x.t), typeString(r.t))
		}
		v := in.rvLoad(x)
		if kindOf(r.t) == kInterface && kindOf(x.t) != kInterface {
			v = IfaceV{t: x.t, v: v}
		}
		in.storeCell(r.c, v)
		return nil
	}
	m["(reflect.Value).SetUint"] = func(in *Interp, _ *frame, _ *ssa.CallCommon, a []Value) Value {
		r := rv(a[0])
		in.rvMustSettable(r, "SetUint")
		w, signed, ok := intKindWidth(kindOf(r.t))
		if !ok || signed {
			in.goPanicf("reflect: call of reflect.Value.SetUint on %s Value", kindName(kindOf(r.t)))
		}
		in.storeCell(r.c, Extract(term(a[1]), w-1, 0))
		return nil
	}
	m["(reflect.Value).SetInt"] = func(in *Interp, _ *frame, _ *ssa.CallCommon, a []Value) Value {
		r := rv(a[0])
		in.rvMustSettable(r, "SetInt")
		w, signed, ok := intKindWidth(kindOf(r.t))
		if !ok || !signed {
			in.goPanicf("reflect: call of reflect.Value.SetInt on %s Value", kindName(kindOf(r.t)))
		}
		in.storeCell(r.c, Extract(term(a[1]), w-1, 0))
		return nil
	}
	m["(reflect.Value).SetFloat"] = func(in *Interp, _ *frame, _ *ssa.CallCommon, a []Value) Value {
		r := rv(a[0])
		in.rvMustSettable(r, "SetFloat")
		switch kindOf(r.t) {
		case kFloat32:
			in.storeCell(r.c, FConv(term(a[1]), SFP32))
		case kFloat64:
			in.storeCell(r.c, term(a[1]))
		default:
			in.goPanicf("reflect: call of reflect.Value.SetFloat on %s Value", kindName(kindOf(r.t)))
		}
		return nil
	}
	m["(reflect.Value).SetString"] = func(in *Interp, _ *frame, _ *ssa.CallCommon, a []Value) Value {
		r := rv(a[0])
		in.rvMustSettable(r, "SetString")
		if kindOf(r.t) != kString {
			in.goPanicf("reflect: call of reflect.Value.SetString on %s Value", kindName(kindOf(r.t)))
		}
		in.storeCell(r.c, a[1])
		return nil
	}
	m["(reflect.Value).SetBool"] = func(in *Interp, _ *frame, _ *ssa.CallCommon, a []Value) Value {
		r := rv(a[0])
		in.rvMustSettable(r, "SetBool")
		if kindOf(r.t) != kBool {
			in.goPanicf("reflect: call of reflect.Value.SetBool on %s Value", kindName(kindOf(r.t)))
		}
		in.storeCell(r.c, a[1])
		return nil
	}
	m["(reflect.Value).SetBytes"] = func(in *Interp, _ *frame, _ *ssa.CallCommon, a []Value) Value {
		r := rv(a[0])
		in.rvMustSettable(r, "SetBytes")
		if kindOf(r.t) != kSlice {
			in.goPanicf("reflect: call of reflect.Value.SetBytes on %s Value", kindName(kindOf(r.t)))
		}
		if kindOf(under(r.t).(*types.Slice).Elem()) != kUint8 {
			in.goPanicf("reflect.Value.SetBytes of non-byte slice")
		}
		s := a[1].(SliceV)
		s.elem = under(r.t).(*types.Slice).Elem()
		in.storeCell(r.c, s)
		return nil
	}
	m["(reflect.Value).Uint"] = func(in *Interp, _ *frame, _ *ssa.CallCommon, a []Value) Value {
		r := rv(a[0])
		_, signed, ok := intKindWidth(kindOf(r.t))
		if !ok || signed {
			in.goPanicf("reflect: call of reflect.Value.Uint on %s Value", kindName(kindOf(r.t)))
		}
		return Zext(term(in.rvLoad(r)), 64)
	}
	m["(reflect.Value).Int"] = func(in *Interp, _ *frame, _ *ssa.CallCommon, a []Value) Value {
		r := rv(a[0])
		_, signed, ok := intKindWidth(kindOf(r.t))
		if !ok || !signed {
			in.goPanicf("reflect: call of reflect.Value.Int on %s Value", kindName(kindOf(r.t)))
		}
		return Sext(term(in.rvLoad(r)), 64)
	}
	m["(reflect.Value).Float"] = func(in *Interp, _ *frame, _ *ssa.CallCommon, a []Value) Value {
		r := rv(a[0])
		switch kindOf(r.t) {
		case kFloat32:
			return FConv(term(in.rvLoad(r)), SFP64)
		case kFloat64:
			return term(in.rvLoad(r))
		}
		in.goPanicf("reflect: call of reflect.Value.Float on %s Value", kindName(kindOf(r.t)))
		return nil
	}
	m["(reflect.Value).String"] = func(in *Interp, _ *frame, _ *ssa.CallCommon, a []Value) Value {
		r := rv(a[0])
		if kindOf(r.t) == kString {
			return in.rvLoad(r)
		}
		return StringV{opaque: "reflect.Value.String"}
	}
	m["(reflect.Value).Bytes"] = func(in *Interp, _ *frame, _ *ssa.CallCommon, a []Value) Value {
		r := rv(a[0])
		if kindOf(r.t) == kSlice && kindOf(under(r.t).(*types.Slice).Elem()) == kUint8 {
			return in.rvLoad(r)
		}
		in.goPanicf("reflect.Value.Bytes of non-byte slice")
		return nil
	}
	m["reflect.MakeSlice"] = func(in *Interp, _ *frame, _ *ssa.CallCommon, a []Value) Value {
		iv := a[0].(IfaceV)
		if iv.t == nil {
			in.goPanicf("nil pointer dereference: reflect.MakeSlice(nil)")
		}
		t := iv.v.(RTypeV).t
		st, ok := under(t).(*types.Slice)
		if !ok {
			in.goPanicf("reflect.MakeSlice of non-slice type")
		}
		ln, cp := term(a[1]), term(a[2])
		if in.ex.Branch(Slt(ln, I64(0))) {
			in.goPanicf("reflect.MakeSlice: negative len")
		}
		if in.ex.Branch(Slt(cp, I64(0))) {
			in.goPanicf("reflect.MakeSlice: negative cap")
		}
		if in.ex.Branch(Slt(cp, ln)) {
			in.goPanicf("reflect.MakeSlice: len > cap")
		}
		n := in.ex.Choose(cp)
		arr := in.newArrayCell(st.Elem(), int(n))
		return RVal{t: t, v: SliceV{arr: arr, off: I64(0), ln: ln, cp: I64(int64(n)), elem: st.Elem()}}
	}
	m["reflect.Zero"] = func(in *Interp, _ *frame, _ *ssa.CallCommon, a []Value) Value {
		iv := a[0].(IfaceV)
		if iv.t == nil {
			in.goPanicf("reflect: Zero(nil)")
		}
		t := iv.v.(RTypeV).t
		return RVal{t: t, v: zeroValue(t)}
	}
	m["reflect.New"] = func(in *Interp, _ *frame, _ *ssa.CallCommon, a []Value) Value {
		iv := a[0].(IfaceV)
		if iv.t == nil {
			in.goPanicf("reflect: New(nil)")
		}
		t := iv.v.(RTypeV).t
		return RVal{t: types.NewPointer(t), v: Ptr{c: in.newCell(t)}}
	}

	// ---------------------------------------------------------- fmt / strconv / errors
	opaque := func(name string) intrinsic {
		return func(in *Interp, _ *frame, _ *ssa.CallCommon, a []Value) Value {
			return StringV{opaque: name}
		}
	}
	m["fmt.Sprintf"] = opaque("fmt.Sprintf")
	m["fmt.Sprint"] = opaque("fmt.Sprint")
	m["fmt.Sprintln"] = opaque("fmt.Sprintln")
	m["fmt.Errorf"] = func(in *Interp, _ *frame, _ *ssa.CallCommon, a []Value) Value {
		return in.fmtErrorf(a)
	}
	for _, n := range []string{"fmt.Println", "fmt.Printf", "fmt.Print", "fmt.Fprintf", "fmt.Fprintln", "fmt.Fprint"} {
		m[n] = func(in *Interp, _ *frame, _ *ssa.CallCommon, a []Value) Value {
			return TupleV{I64(0), IfaceV{}}
		}
	}
	m["errors.Is"] = func(in *Interp, _ *frame, _ *ssa.CallCommon, a []Value) Value {
		return in.errorsIs(a[0].(IfaceV), a[1].(IfaceV))
	}
	strconv1 := func(name string) intrinsic {
		return func(in *Interp, _ *frame, _ *ssa.CallCommon, a []Value) Value {
			var parts []string
			for _, x := range a {
				if t, ok := x.(*Term); ok {
					parts = append(parts, smtName(t))
				} else {
					parts = append(parts, "?")
				}
			}
			return StringV{opaque: name + "(" + strings.Join(parts, ",") + ")"}
		}
	}
	for _, n := range []string{"strconv.Itoa", "strconv.FormatInt", "strconv.FormatUint", "strconv.FormatFloat", "strconv.Quote", "strconv.FormatBool"} {
		m[n] = strconv1(n)
	}

	// ---------------------------------------------------------- math
	m["math.Float32frombits"] = func(in *Interp, _ *frame, _ *ssa.CallCommon, a []Value) Value {
		return FFromBV(term(a[0]))
	}
	m["math.Float64frombits"] = func(in *Interp, _ *frame, _ *ssa.CallCommon, a []Value) Value {
		return FFromBV(term(a[0]))
	}
	m["math.Float32bits"] = func(in *Interp, _ *frame, _ *ssa.CallCommon, a []Value) Value {
		return in.fpBitsOf(term(a[0]))
	}
	m["math.Float64bits"] = func(in *Interp, _ *frame, _ *ssa.CallCommon, a []Value) Value {
		return in.fpBitsOf(term(a[0]))
	}
	m["math.Pow"] = func(in *Interp, _ *frame, _ *ssa.CallCommon, a []Value) Value {
		x, y := term(a[0]), term(a[1])
		if !x.IsConst() || !y.IsConst() {
			in.unsupported("math.Pow on symbolic operands")
		}
		return FConst64(math.Pow(math.Float64frombits(x.cv), math.Float64frombits(y.cv)))
	}
	m["math.IsNaN"] = func(in *Interp, _ *frame, _ *ssa.CallCommon, a []Value) Value {
		return FIsNaN(term(a[0]))
	}
	m["math.NaN"] = func(in *Interp, _ *frame, _ *ssa.CallCommon, a []Value) Value {
		return FConst64(math.NaN())
	}
	m["math.Abs"] = func(in *Interp, _ *frame, _ *ssa.CallCommon, a []Value) Value {
		x := term(a[0])
		if x.IsConst() {
			return FConst64(math.Abs(math.Float64frombits(x.cv)))
		}
		return Ite(FLt(x, FConst64(0)), FNeg(x), x)
	}

	// ---------------------------------------------------------- sync.Map
	// modelled as an association list attached to the receiver's cell, so
	// that caches built on it are executed (and their writes tracked) rather
	// than ending the path as unsupported
	m["(*sync.Map).Load"] = func(in *Interp, _ *frame, _ *ssa.CallCommon, a []Value) Value {
		mo := in.syncMap(a[0])
		for _, e := range mo.entries {
			if in.ex.Branch(in.eqValues(e.k, a[1], nil)) {
				return TupleV{e.v, True}
			}
		}
		return TupleV{IfaceV{}, False}
	}
	m["(*sync.Map).Store"] = func(in *Interp, _ *frame, _ *ssa.CallCommon, a []Value) Value {
		in.syncMapStore(in.syncMap(a[0]), a[1], a[2])
		return nil
	}
	m["(*sync.Map).LoadOrStore"] = func(in *Interp, _ *frame, _ *ssa.CallCommon, a []Value) Value {
		mo := in.syncMap(a[0])
		for _, e := range mo.entries {
			if in.ex.Branch(in.eqValues(e.k, a[1], nil)) {
				return TupleV{e.v, True}
			}
		}
		in.syncMapStore(mo, a[1], a[2])
		return TupleV{a[2], False}
	}
	m["(*sync.Map).Delete"] = func(in *Interp, _ *frame, _ *ssa.CallCommon, a []Value) Value {
		mo := in.syncMap(a[0])
		for i, e := range mo.entries {
			if in.ex.Branch(in.eqValues(e.k, a[1], nil)) {
				ne := append(append([]mapEntry{}, mo.entries[:i]...), mo.entries[i+1:]...)
				in.setEntries(mo, ne)
				return nil
			}
		}
		return nil
	}

	// ---------------------------------------------------------- internal/bytealg
	// (assembly in the standard library; bytes.IndexByte, bytes.Repeat,
	// strings.Builder etc. bottom out here)
	m["internal/bytealg.IndexByte"] = func(in *Interp, _ *frame, _ *ssa.CallCommon, a []Value) Value {
		sl := a[0].(SliceV)
		c := term(a[1])
		if sl.arr == nil {
			return I64(-1)
		}
		n := int(in.ex.Choose(sl.ln))
		off := int(in.ex.Choose(sl.off))
		for i := 0; i < n; i++ {
			if in.ex.Branch(Eq(term(in.loadCell(sl.arr.kids[off+i])), c)) {
				return I64(int64(i))
			}
		}
		return I64(-1)
	}
	m["internal/bytealg.IndexByteString"] = func(in *Interp, _ *frame, _ *ssa.CallCommon, a []Value) Value {
		sv := a[0].(StringV)
		if !sv.isPlain() {
			in.unsupported("IndexByteString on an opaque string")
		}
		c := term(a[1])
		for i, b := range sv.b {
			if in.ex.Branch(Eq(b, c)) {
				return I64(int64(i))
			}
		}
		return I64(-1)
	}
	m["internal/bytealg.MakeNoZero"] = func(in *Interp, _ *frame, _ *ssa.CallCommon, a []Value) Value {
		n := in.concretizeLen(in.idx64(term(a[0]), types.Typ[types.Int]), "MakeNoZero")
		if int64(n) < 0 || n > 1<<24 {
			in.goPanicf("makeslice: len out of range")
		}
		et := types.Typ[types.Uint8]
		arr := in.newArrayCell(et, int(n))
		return SliceV{arr: arr, off: I64(0), ln: I64(int64(n)), cp: I64(int64(n)), elem: et}
	}

	// ---------------------------------------------------------- sync.Mutex, RWMutex, Once, sync/atomic
	// The engine runs one call at a time, so locks never block. Writes made
	// while a lock is held (or inside Once.Do) are recorded as synchronised.
	lock := func(in *Interp, _ *frame, _ *ssa.CallCommon, a []Value) Value { in.lockDepth++; return nil }
	unlock := func(in *Interp, _ *frame, _ *ssa.CallCommon, a []Value) Value {
		if in.lockDepth > 0 {
			in.lockDepth--
		}
		return nil
	}
	for _, n := range []string{"(*sync.Mutex).Lock", "(*sync.RWMutex).Lock", "(*sync.RWMutex).RLock"} {
		m[n] = lock
	}
	for _, n := range []string{"(*sync.Mutex).Unlock", "(*sync.RWMutex).Unlock", "(*sync.RWMutex).RUnlock"} {
		m[n] = unlock
	}
	m["(*sync.Mutex).TryLock"] = func(in *Interp, _ *frame, _ *ssa.CallCommon, a []Value) Value { in.lockDepth++; return True }
	m["(*sync.Once).Do"] = func(in *Interp, _ *frame, _ *ssa.CallCommon, a []Value) Value {
		mo := in.syncMap(a[0])
		if len(mo.entries) > 0 {
			return nil
		}
		in.poolSet(mo, []mapEntry{{nil, True}})
		in.lockDepth++
		in.callFn(a[1].(*FuncV), nil)
		in.lockDepth--
		return nil
	}
	for _, w := range []string{"Int32", "Int64", "Uint32", "Uint64", "Uintptr"} {
		m["sync/atomic.Load"+w] = func(in *Interp, _ *frame, _ *ssa.CallCommon, a []Value) Value { return in.load(a[0].(Ptr)) }
		m["sync/atomic.Store"+w] = func(in *Interp, _ *frame, _ *ssa.CallCommon, a []Value) Value {
			in.lockDepth++
			in.store(a[0].(Ptr), a[1])
			in.lockDepth--
			return nil
		}
		m["sync/atomic.Add"+w] = func(in *Interp, _ *frame, _ *ssa.CallCommon, a []Value) Value {
			p := a[0].(Ptr)
			nv := Add(term(in.load(p)), term(a[1]))
			in.lockDepth++
			in.store(p, nv)
			in.lockDepth--
			return nv
		}
		m["sync/atomic.CompareAndSwap"+w] = func(in *Interp, _ *frame, _ *ssa.CallCommon, a []Value) Value {
			p := a[0].(Ptr)
			if in.ex.Branch(Eq(term(in.load(p)), term(a[1]))) {
				in.lockDepth++
				in.store(p, a[2])
				in.lockDepth--
				return True
			}
			return False
		}
	}

	// ---------------------------------------------------------- sync.Pool
	// A LIFO list per pool. The pool itself is goroutine-safe and holds no
	// result-relevant state, so Put/Get are not "shared writes"; what the
	// model watches is the contract: after Put(x) the caller must not touch
	// x (nor anything reachable from it) until a Get hands it out again.
	m["(*sync.Pool).Put"] = func(in *Interp, _ *frame, _ *ssa.CallCommon, a []Value) Value {
		iv, _ := a[1].(IfaceV)
		if iv.t == nil {
			return nil
		}
		mo := in.syncMap(a[0])
		in.poolSet(mo, append(append([]mapEntry{}, mo.entries...), mapEntry{nil, iv}))
		in.markReleased(iv.v, true, 0)
		return nil
	}
	m["(*sync.Pool).Get"] = func(in *Interp, _ *frame, _ *ssa.CallCommon, a []Value) Value {
		mo := in.syncMap(a[0])
		if n := len(mo.entries); n > 0 {
			it := mo.entries[n-1].v
			in.poolSet(mo, append([]mapEntry{}, mo.entries[:n-1]...))
			in.markReleased(it.(IfaceV).v, false, 0)
			return it
		}
		c := in.resolve(a[0].(Ptr))
		st := under(c.t).(*types.Struct)
		for i := 0; i < st.NumFields(); i++ {
			if st.Field(i).Name() == "New" {
				if fv, ok := in.loadCell(c.kids[i]).(*FuncV); ok && fv != nil {
					return in.callFn(fv, nil)
				}
			}
		}
		return IfaceV{}
	}

	// ---------------------------------------------------------- sort.Slice
	m["sort.Slice"] = func(in *Interp, _ *frame, _ *ssa.CallCommon, a []Value) Value {
		iv := a[0].(IfaceV)
		sl, ok := iv.v.(SliceV)
		if !ok {
			in.goPanicf("sort.Slice: not a slice")
		}
		less := a[1].(*FuncV)
		if sl.arr == nil {
			return nil
		}
		n := int(in.ex.Choose(sl.ln))
		off := int(in.ex.Choose(sl.off))
		// insertion sort driven by the caller's less (any correct sort gives
		// the same result when less is a strict weak order without ties)
		for i := 1; i < n; i++ {
			for j := i; j > 0; j-- {
				r := term(in.callFn(less, []Value{I64(int64(j)), I64(int64(j - 1))}))
				if !in.ex.Branch(r) {
					break
				}
				x, y := sl.arr.kids[off+j], sl.arr.kids[off+j-1]
				vx, vy := in.loadCell(x), in.loadCell(y)
				in.storeCell(x, vy)
				in.storeCell(y, vx)
			}
		}
		return nil
	}

	// ---------------------------------------------------------- encoding/binary
	m["encoding/binary.Write"] = func(in *Interp, _ *frame, _ *ssa.CallCommon, a []Value) Value {
		return in.binaryWrite(a[0].(IfaceV), a[1].(IfaceV), a[2].(IfaceV))
	}
	return m
}

func under0(t types.Type) types.Type {
	if t == nil {
		return nil
	}
	return t.Underlying()
}

func (in *Interp) fpBitsOf(t *Term) *Term {
	if t.IsConst() {
		return BVConst(t.sort.W, t.cv)
	}
	if t.op == OpFFromBV {
		return t.a
	}
	// fresh bits constrained to denote t
	in.nondetN++
	v := NewVar(fmt.Sprintf("fpbits_%d_%d", in.nondetN, t.id), BV(t.sort.W))
	in.ex.Assume(Eq(FFromBV(v), t))
	return v
}

// fmtErrorf models fmt.Errorf: an error value that wraps the operand of %w.
func (in *Interp) fmtErrorf(a []Value) Value {
	format, _ := a[0].(StringV).concrete()
	var rest []Value
	if s, ok := a[1].(SliceV); ok && s.arr != nil {
		n := int(in.ex.Choose(s.ln))
		off := int(in.ex.Choose(s.off))
		for i := 0; i < n; i++ {
			rest = append(rest, in.loadCell(s.arr.kids[off+i]))
		}
	}
	// find %w operand index
	argi := 0
	var wrapped []IfaceV
	for i := 0; i < len(format); i++ {
		if format[i] != '%' {
			continue
		}
		i++
		for i < len(format) && strings.IndexByte("+-# 0123456789.[]*", format[i]) >= 0 {
			i++
		}
		if i >= len(format) {
			break
		}
		if format[i] == '%' {
			continue
		}
		if format[i] == 'w' && argi < len(rest) {
			if iv, ok := rest[argi].(IfaceV); ok && iv.t != nil {
				wrapped = append(wrapped, iv)
			}
		}
		argi++
	}
	fmtPkg := in.prog.ImportedPackage("fmt")
	msg := StringV{opaque: "fmt.Errorf"}
	if len(wrapped) == 1 && fmtPkg != nil {
		if tn := fmtPkg.Pkg.Scope().Lookup("wrapError"); tn != nil {
			c := in.newCell(tn.Type())
			c.kids[0].v = msg
			c.kids[1].v = wrapped[0]
			return IfaceV{t: types.NewPointer(tn.Type()), v: Ptr{c: c}}
		}
	}
	if len(wrapped) > 1 {
		in.unsupported("fmt.Errorf with several %w")
	}
	errPkg := in.prog.ImportedPackage("errors")
	tn := errPkg.Pkg.Scope().Lookup("errorString")
	c := in.newCell(tn.Type())
	c.kids[0].v = msg
	return IfaceV{t: types.NewPointer(tn.Type()), v: Ptr{c: c}}
}

// errorsIs models errors.Is for comparable targets.
func (in *Interp) errorsIs(err, target IfaceV) *Term {
	if err.t == nil || target.t == nil {
		return Bool(err.t == nil && target.t == nil)
	}
	comparable := types.Comparable(target.t)
	for depth := 0; depth < 64; depth++ {
		if comparable && types.Identical(err.t, target.t) {
			eq := in.eqValues(err.v, target.v, err.t)
			if in.ex.Branch(eq) {
				return True
			}
		}
		ms := in.prog.MethodSets.MethodSet(err.t)
		if sel := ms.Lookup(nil, "Is"); sel != nil {
			if sig, ok := sel.Type().(*types.Signature); ok && sig.Params().Len() == 1 && sig.Results().Len() == 1 {
				fn := in.prog.MethodValue(sel)
				r := term(in.call(fn, []Value{err.v, target}, nil, nil))
				if in.ex.Branch(r) {
					return True
				}
			}
		}
		sel := ms.Lookup(nil, "Unwrap")
		if sel == nil {
			return False
		}
		sig := sel.Type().(*types.Signature)
		if sig.Results().Len() != 1 || !types.Identical(sig.Results().At(0).Type(), types.Universe.Lookup("error").Type()) {
			if sig.Results().Len() == 1 {
				in.unsupported("errors.Is over Unwrap() []error")
			}
			return False
		}
		fn := in.prog.MethodValue(sel)
		next := in.call(fn, []Value{err.v}, nil, nil).(IfaceV)
		if next.t == nil {
			return False
		}
		err = next
	}
	in.unsupported("errors.Is: chain too long")
	return nil
}

// binaryWrite models encoding/binary.Write: append the fixed-size encoding of
// data in the given order to w, or return an error for non-fixed-size data.
func (in *Interp) binaryWrite(w, order, data IfaceV) Value {
	if data.t == nil {
		return in.newError("binary.Write: some values are not fixed-sized in type <nil>")
	}
	big := false
	if order.t != nil {
		big = strings.Contains(typeString(order.t), "bigEndian")
	}
	var out []*Term
	ok := in.binEncode(&out, data.t, data.v, big, true)
	if !ok {
		return in.newError("binary.Write: some values are not fixed-sized in type " + typeString(data.t))
	}
	arr := in.newArrayCell(types.Typ[types.Uint8], len(out))
	for i, t := range out {
		arr.kids[i].v = t
	}
	n := I64(int64(len(out)))
	sl := SliceV{arr: arr, off: I64(0), ln: n, cp: n, elem: types.Typ[types.Uint8]}
	wm := in.writeMethod()
	res := in.invoke(w, wm, []Value{sl}, nil).(TupleV)
	return res[1]
}

func (in *Interp) writeMethod() *types.Func {
	ioPkg := in.prog.ImportedPackage("io")
	wi := ioPkg.Pkg.Scope().Lookup("Writer").Type().Underlying().(*types.Interface)
	for i := 0; i < wi.NumMethods(); i++ {
		if wi.Method(i).Name() == "Write" {
			return wi.Method(i)
		}
	}
	panic("io.Writer.Write not found")
}

func (in *Interp) newError(msg string) Value {
	errPkg := in.prog.ImportedPackage("errors")
	tn := errPkg.Pkg.Scope().Lookup("errorString")
	c := in.newCell(tn.Type())
	c.kids[0].v = constString(msg)
	return IfaceV{t: types.NewPointer(tn.Type()), v: Ptr{c: c}}
}

func putInt(out *[]*Term, t *Term, big bool) {
	n := t.sort.W / 8
	for i := 0; i < n; i++ {
		k := i
		if big {
			k = n - 1 - i
		}
		*out = append(*out, Extract(t, k*8+7, k*8))
	}
}

func (in *Interp) binEncode(out *[]*Term, t types.Type, v Value, big bool, top bool) bool {
	switch u := under(t).(type) {
	case *types.Basic:
		switch u.Kind() {
		case types.Bool:
			*out = append(*out, Ite(term(v), BVConst(8, 1), BVConst(8, 0)))
			return true
		case types.Int8, types.Uint8, types.Int16, types.Uint16, types.Int32, types.Uint32, types.Int64, types.Uint64:
			putInt(out, term(v), big)
			return true
		case types.Float32, types.Float64:
			putInt(out, in.fpBitsOf(term(v)), big)
			return true
		}
		return false
	case *types.Pointer:
		if !top {
			return false
		}
		p := v.(Ptr)
		if p.c == nil {
			return false
		}
		return in.binEncode(out, u.Elem(), in.loadCell(in.resolve(p)), big, false)
	case *types.Array:
		a := v.(*ArrayV)
		for _, e := range a.e {
			if !in.binEncode(out, u.Elem(), e, big, false) {
				return false
			}
		}
		// zero-length arrays of non-fixed types are still invalid
		if len(a.e) == 0 {
			return fixedSize(u.Elem())
		}
		return true
	case *types.Slice:
		if !fixedSize(u.Elem()) {
			return false
		}
		s := v.(SliceV)
		if s.arr == nil {
			return true
		}
		n := int(in.ex.Choose(s.ln))
		off := int(in.ex.Choose(s.off))
		for i := 0; i < n; i++ {
			if !in.binEncode(out, u.Elem(), in.loadCell(s.arr.kids[off+i]), big, false) {
				return false
			}
		}
		return true
	case *types.Struct:
		s := v.(*StructV)
		for i := 0; i < u.NumFields(); i++ {
			f := u.Field(i)
			if f.Name() == "_" {
				if !fixedSize(f.Type()) {
					return false
				}
				for k := int64(0); k < sizeofFixed(f.Type()); k++ {
					*out = append(*out, BVConst(8, 0))
				}
				continue
			}
			if !in.binEncode(out, f.Type(), s.f[i], big, false) {
				return false
			}
		}
		return true
	}
	return false
}

func fixedSize(t types.Type) bool {
	switch u := under(t).(type) {
	case *types.Basic:
		switch u.Kind() {
		case types.Bool, types.Int8, types.Uint8, types.Int16, types.Uint16, types.Int32, types.Uint32, types.Int64, types.Uint64, types.Float32, types.Float64:
			return true
		}
		return false
	case *types.Array:
		return fixedSize(u.Elem())
	case *types.Struct:
		for i := 0; i < u.NumFields(); i++ {
			if !fixedSize(u.Field(i).Type()) {
				return false
			}
		}
		return true
	}
	return false
}

func sizeofFixed(t types.Type) int64 {
	switch u := under(t).(type) {
	case *types.Basic:
		return int64(intWidthOrFloat(u.Kind())) / 8
	case *types.Array:
		return u.Len() * sizeofFixed(u.Elem())
	case *types.Struct:
		var n int64
		for i := 0; i < u.NumFields(); i++ {
			n += sizeofFixed(u.Field(i).Type())
		}
		return n
	}
	return 0
}

func intWidthOrFloat(k types.BasicKind) int {
	switch k {
	case types.Float32:
		return 32
	case types.Float64:
		return 64
	case types.Bool:
		return 8
	}
	return intWidth(k)
}

func (in *Interp) syncMap(recv Value) *MapObj {
	p := recv.(Ptr)
	if p.c == nil {
		in.goPanicf("nil pointer dereference (sync.Map)")
	}
	c := in.resolve(p)
	if in.syncMaps == nil {
		in.syncMaps = map[*Cell]*MapObj{}
	}
	mo := in.syncMaps[c]
	if mo == nil {
		mo = &MapObj{born: c.born}
		in.syncMaps[c] = mo
	}
	return mo
}

// isZeroTerm is reflect.Value.IsZero: the value equals the zero value of its
// type (floats: all bits zero, as reflect does it).
func (in *Interp) isZeroTerm(v Value, t types.Type) *Term {
	switch x := v.(type) {
	case *Term:
		if x.sort == SBool {
			return Not(x)
		}
		if x.sort == SFP32 || x.sort == SFP64 {
			b := in.fpBitsOf(x)
			return Eq(b, Const(b.sort, 0))
		}
		return Eq(x, Const(x.sort, 0))
	case StringV:
		if !x.isPlain() {
			in.unsupported("IsZero of an opaque string")
		}
		return Bool(len(x.b) == 0)
	case Ptr:
		return Bool(x.c == nil)
	case SliceV:
		return Bool(x.arr == nil)
	case MapV:
		return Bool(x.m == nil)
	case *FuncV:
		return Bool(x == nil)
	case IfaceV:
		return Bool(x.t == nil)
	case *StructV:
		st := under(t).(*types.Struct)
		r := True
		for i, f := range x.f {
			r = And(r, in.isZeroTerm(f, st.Field(i).Type()))
		}
		return r
	case *ArrayV:
		et := under(t).(*types.Array).Elem()
		r := True
		for _, e := range x.e {
			r = And(r, in.isZeroTerm(e, et))
		}
		return r
	case nil:
		return True
	}
	in.unsupported(fmt.Sprintf("IsZero of %T", v))
	return nil
}

// poolSet replaces a pool's item list (undone at the end of the path; not a
// tracked shared write, see the sync.Pool model).
func (in *Interp) poolSet(m *MapObj, ne []mapEntry) {
	if m.born < in.epoch {
		in.undo = append(in.undo, undoRec{m: m, ent: m.entries})
	}
	m.entries = ne
}

// markReleased sets or clears the released mark on every leaf cell reachable
// from v that was allocated on the current path.
func (in *Interp) markReleased(v Value, rel bool, depth int) {
	if depth > 6 {
		return
	}
	var cell func(c *Cell, d int)
	cell = func(c *Cell, d int) {
		if c == nil || d > 6 || c.born < in.epoch {
			return
		}
		if c.kids == nil {
			c.rel = rel
			in.markReleased(c.v, rel, d+1)
			return
		}
		for _, k := range c.kids {
			cell(k, d)
		}
	}
	switch x := v.(type) {
	case Ptr:
		if x.c != nil && x.idx == nil {
			cell(x.c, depth)
		}
	case SliceV:
		cell(x.arr, depth)
	case IfaceV:
		in.markReleased(x.v, rel, depth+1)
	case *StructV:
		for _, f := range x.f {
			in.markReleased(f, rel, depth+1)
		}
	}
}

// usedAfterPut reports an access to an object that is in a sync.Pool.
func (in *Interp) usedAfterPut(c *Cell) {
	c.rel = false
	if in.initMode {
		return
	}
	in.ex.Fail("C09.pooled-object-used-after-put", "access to an object of type "+typeString(c.t)+" after it was handed to sync.Pool.Put and before a Get returned it: another goroutine's Get may own it")
}

func (in *Interp) syncMapStore(mo *MapObj, k, v Value) {
	for i, e := range mo.entries {
		if in.ex.Branch(in.eqValues(e.k, k, nil)) {
			ne := append([]mapEntry{}, mo.entries...)
			ne[i].v = v
			in.setEntries(mo, ne)
			return
		}
	}
	ne := append(append([]mapEntry{}, mo.entries...), mapEntry{k, v})
	in.setEntries(mo, ne)
}
