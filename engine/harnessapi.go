package main

import (
	"fmt"
	"go/types"
	"strings"

	"golang.org/x/tools/go/ssa"
)

func (in *Interp) nondet(kind string, s Sort) *Term {
	return in.nondetSfx(kind, s, "")
}

func (in *Interp) nondetSfx(kind string, s Sort, sfx string) *Term {
	in.nondetN++
	if in.tape != nil {
		i := len(in.ex.nondets)
		if i >= len(in.tape) {
			in.unsupported("concrete tape exhausted")
		}
		c := Const(s, in.tape[i].Val)
		in.ex.nondets = append(in.ex.nondets, nondetRec{kind: kind, t: c})
		return c
	}
	name := fmt.Sprintf("nd%d_%s%s", len(in.ex.nondets), kind, sfx)
	v := NewVar(name, s)
	in.ex.nondets = append(in.ex.nondets, nondetRec{kind: kind, t: v})
	return v
}

var rangeCons = map[*Term]*Term{}

// rangedVar returns an unsigned-ranged variable and asserts its range on the
// current path.
func (in *Interp) rangedVar(name string, s Sort, lo, hi uint64) *Term {
	v := NewVar(name, s)
	c, ok := rangeCons[v]
	if !ok {
		c = And(Ule(Const(s, lo), v), Ule(v, Const(s, hi)))
		rangeCons[v] = c
		v.lo, v.hi = lo, hi
	}
	in.ex.Assume(c)
	return v
}

// harnessAPI intercepts the v* functions of the harness API.
func (in *Interp) harnessAPI(fn *ssa.Function, a []Value) (Value, bool) {
	switch fn.Name() {
	case "vByte":
		return in.nondet("u8", BV(8)), true
	case "vU16":
		return in.nondet("u16", BV(16)), true
	case "vU32":
		return in.nondet("u32", BV(32)), true
	case "vU64":
		return in.nondet("u64", BV(64)), true
	case "vI32":
		return in.nondet("u32", BV(32)), true
	case "vI64":
		return in.nondet("u64", BV(64)), true
	case "vBool":
		v := in.nondet("u8", BV(8))
		return Ne(Extract(v, 0, 0), BVConst(1, 0)), true
	case "vInt":
		lo, hi := term(a[0]), term(a[1])
		if !lo.IsConst() || !hi.IsConst() {
			in.unsupported("vInt with symbolic bounds")
		}
		l, h := sx(lo.cv, 64), sx(hi.cv, 64)
		v := in.nondetSfx("u64", BV(64), fmt.Sprintf("_r%d_%d", uint64(l), uint64(h)))
		c, ok := rangeCons[v]
		if !ok {
			// build the constraint before narrowing the range, or it folds away
			c = And(Sle(lo, v), Sle(v, hi))
			rangeCons[v] = c
			if l >= 0 {
				v.lo, v.hi = uint64(l), uint64(h)
			}
		}
		in.ex.Assume(c)
		return v, true
	case "vBytes":
		s := a[0].(SliceV)
		if s.arr == nil {
			return nil, true
		}
		n := int(in.ex.Choose(s.ln))
		off := int(in.ex.Choose(s.off))
		for i := 0; i < n; i++ {
			in.storeCell(s.arr.kids[off+i], in.nondet("u8", BV(8)))
		}
		return nil, true
	case "vAssume":
		in.ex.Assume(term(a[0]))
		return nil, true
	case "vAssert":
		id, _ := a[1].(StringV).concrete()
		in.ex.Assert(term(a[0]), id, "assertion "+id+" violated")
		return nil, true
	case "vReached":
		l, _ := a[0].(StringV).concrete()
		if in.ex.pos >= in.ex.prefix || in.ex.Reached[l] == 0 {
			in.ex.Reached[l]++
		}
		return nil, true
	case "vUnwind":
		in.unwind = int(term(a[0]).cv)
		return nil, true
	case "vParam":
		n, _ := a[0].(StringV).concrete()
		v, ok := in.params[n]
		if !ok {
			in.unsupported("missing harness parameter " + n)
		}
		return I64(int64(v)), true
	case "vKnown":
		id, _ := a[0].(StringV).concrete()
		if in.ex.openKnown[id] {
			in.ex.knowns = append(in.ex.knowns, knownClass{id: id, cond: term(a[1])})
		}
		return nil, true
	case "vKnownNext":
		id, _ := a[0].(StringV).concrete()
		if in.ex.openKnown[id] {
			in.ex.knowns = append(in.ex.knowns, knownClass{id: id, cond: term(a[1]), once: true})
		}
		return nil, true
	case "vHavoc":
		iv := a[0].(IfaceV)
		p := iv.v.(Ptr)
		c := in.resolve(p)
		st, ok := under(c.t).(*types.Struct)
		if !ok {
			in.unsupported("vHavoc of non-struct")
		}
		for i := 0; i < st.NumFields(); i++ {
			b, ok := under(st.Field(i).Type()).(*types.Basic)
			if !ok {
				continue
			}
			switch {
			case b.Info()&types.IsInteger != 0:
				w := intWidth(b.Kind())
				in.storeCell(c.kids[i], in.nondet(fmt.Sprintf("u%d", w), BV(w)))
			case b.Kind() == types.Float32:
				in.storeCell(c.kids[i], FFromBV(in.nondet("u32", BV(32))))
			case b.Kind() == types.Float64:
				in.storeCell(c.kids[i], FFromBV(in.nondet("u64", BV(64))))
			case b.Kind() == types.Bool:
				v := in.nondet("u8", BV(8))
				in.storeCell(c.kids[i], Ne(Extract(v, 0, 0), BVConst(1, 0)))
			}
		}
		return nil, true
	case "vFieldName":
		iv := a[0].(IfaceV)
		t := iv.t
		if pt, ok := under(t).(*types.Pointer); ok {
			t = pt.Elem()
		}
		st := under(t).(*types.Struct)
		return constString(st.Field(int(term(a[1]).cv)).Name()), true
	case "vConcretize":
		t := term(a[0])
		return Const(t.sort, in.ex.Choose(t)), true
	case "vTrackShared":
		in.trackShared = term(a[0]).cv == 1
		return nil, true
	case "vSharedWrites":
		n := 0
		for _, c := range in.pathShared {
			n += c
		}
		return I64(int64(n)), true
	case "vSharedWritesTo":
		sub, _ := a[0].(StringV).concrete()
		n := 0
		for k, c := range in.pathShared {
			if strings.Contains(k, sub) {
				n += c
			}
		}
		return I64(int64(n)), true
	case "vPar":
		// the engine has no interleavings: run the two calls one after the other
		in.parBoundary = in.allocSeq
		in.parWrites = [2]map[interface{}]string{{}, {}}
		in.parBranch = 1
		in.callFn(a[0].(*FuncV), nil)
		in.parBranch = 2
		in.callFn(a[1].(*FuncV), nil)
		in.parBranch = 0
		// an object that existed before the two calls and is written,
		// without synchronisation, by both of them
		for o, desc := range in.parWrites[0] {
			if _, both := in.parWrites[1][o]; both {
				in.ex.Fail("C09.object-written-by-both-calls", "an object of type "+desc+" that exists before the two concurrent calls is written by both of them without synchronisation")
				break
			}
		}
		in.parWrites = [2]map[interface{}]string{}
		return nil, true
	case "vNativeRepeat":
		return I64(1), true
	case "vMapOrderSym":
		in.mapOrderSym = term(a[0]).cv == 1
		return nil, true
	case "vOut":
		n, _ := a[0].(StringV).concrete()
		in.ex.Out[n] = int(int64(in.ex.Choose(term(a[1]))))
		return nil, true
	case "vIsSymbolic":
		return True, true
	case "vNote":
		return nil, true
	}
	return nil, false
}
