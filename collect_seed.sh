#!/bin/sh
# ./collect_seed.sh <prop> <worktree-suffix>: moves a sub-agent's change and demo from /tmp/seed/<prop><suffix>{,-demo}
# to seeded/S-<prop>-<next>, removes the worktree, confirms it.
p=$1; sfx=$2
n=1; while [ -d /verif/seeded/S-$p-$n ]; do n=$((n+1)); done
d=/verif/seeded/S-$p-$n; mkdir -p $d
git -C /tmp/seed/$p$sfx diff > $d/patch.diff
cp /tmp/seed/$p$sfx-demo/demo_test.go $d/demo_test.go
git -C /repo worktree remove --force /tmp/seed/$p$sfx
rm -rf /tmp/seed/$p$sfx-demo
/verif/confirm_seed.sh S-$p-$n
