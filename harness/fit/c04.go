//go:build verif

package fit

import (
	"bytes"
	"encoding/binary"
	"errors"

	"github.com/tormoder/fit/dyncrc16"
)

// C04 — corruption is detected: CRC verdicts are sound and agree.

// H04hdr: header verdict agreement. All header bytes symbolic except the
// size byte (parameter: 12 or 14). The four header-checking APIs must agree,
// and on an otherwise well-formed header the verdict is exactly the CRC rule:
// accepted iff there is no CRC field, or the stored CRC is 0, or the residue
// of the 14 bytes is 0 (which by C14's residue lemmas is "stored CRC equals
// the CRC of the first 12 bytes").
func H04hdr() {
	size := vParam("size")
	hb := make([]byte, size)
	vBytes(hb)
	vAssume(hb[0] == byte(size))
	h, err1 := DecodeHeader(&vReader{data: hb, failAt: -1})
	err2 := CheckIntegrity(&vReader{data: hb, failAt: -1}, true)
	f, err3 := Decode(&vReader{data: hb, failAt: -1})
	acc1, acc2, acc3 := err1 == nil, err2 == nil, f != nil
	_ = err3
	vAssert(acc1 == acc2, "C04.hdr.decodeheader-vs-checkintegrity")
	vAssert(acc1 == acc3, "C04.hdr.decodeheader-vs-decode")
	// the header as a user would hold it
	var h2 Header
	h2.Size = hb[0]
	h2.ProtocolVersion = hb[1]
	h2.ProfileVersion = uint16(hb[2]) | uint16(hb[3])<<8
	h2.DataSize = uint32(hb[4]) | uint32(hb[5])<<8 | uint32(hb[6])<<16 | uint32(hb[7])<<24
	copy(h2.DataType[:], hb[8:12])
	if size == 14 {
		h2.CRC = uint16(hb[12]) | uint16(hb[13])<<8
	}
	if acc1 {
		vAssert(h == h2, "C04.hdr.fields")
	}
	err4 := h2.CheckIntegrity()
	vAssert((err4 == nil) == acc1, "C04.hdr.method-vs-decodeheader")
	// the rule itself
	wellFormed := hb[1]>>4 <= 2 && hb[8] == '.' && hb[9] == 'F' && hb[10] == 'I' && hb[11] == 'T'
	if wellFormed {
		crcOK := true
		if size == 14 {
			stored := uint16(hb[12]) | uint16(hb[13])<<8
			crcOK = stored == 0 || dyncrc16.Checksum(hb) == 0
			if !crcOK {
				vAssert(errors.Is(err1, errHdrCRC) && errors.Is(err2, errHdrCRC) && errors.Is(err3, errHdrCRC), "C04.hdr.integrity-error")
			}
		}
		vAssert(acc1 == crcOK, "C04.hdr.rule")
	} else {
		vAssert(!acc1, "C04.hdr.malformed-rejected")
	}
	vReached("end")
}

// vSmallFile builds a minimal valid activity file: 14-byte header with CRC,
// file_id definition + data (type = activity), one record definition + one
// record, file CRC.
func vSmallFile() []byte {
	rec := []byte{
		0x40, 0, 0, 0, 0, 2, 0, 1, 0x00, 1, 2, 0x84, // def local 0: file_id: type(enum,1) manufacturer(uint16,2)
		0x00, 4, 0x01, 0x00, // data: type=4 (activity), manufacturer=1
		0x41, 0, 0, 20, 0, 2, 253, 4, 0x86, 3, 1, 0x02, // def local 1: record: timestamp(uint32) heart_rate(uint8)
		0x01, 0x10, 0x20, 0x30, 0x40, 70, // data
	}
	var b bytes.Buffer
	hdr := make([]byte, 14)
	vHeader14(hdr, uint32(len(rec)))
	c := dyncrc16.Checksum(hdr[:12])
	hdr[12], hdr[13] = byte(c), byte(c>>8)
	b.Write(hdr)
	b.Write(rec)
	fc := dyncrc16.Checksum(b.Bytes())
	b.Write([]byte{byte(fc), byte(fc >> 8)})
	return b.Bytes()
}

// H04burst: a valid file (concrete), corrupted by XOR-ing a non-zero pattern
// of at most 16 contiguous bits starting in byte q (parameter) at an
// arbitrary bit offset: Decode and CheckIntegrity must both return an error,
// unless the burst touches the header's size or data-size fields.
func H04burst() {
	file := vSmallFile()
	good := make([]byte, len(file))
	copy(good, file)
	vAssert(CheckIntegrity(bytes.NewReader(good), false) == nil, "C04.burst.base-accepted")
	gf, gerr := Decode(bytes.NewReader(good))
	vAssert(gerr == nil && gf != nil, "C04.burst.base-decodes")
	q := vParam("q")
	p := vU16()
	o := byte(vParam("o"))
	vAssume(p != 0)
	if vParam("bits") < 16 {
		vAssume(p>>uint(vParam("bits")) == 0)
	}
	e := uint32(p) << o
	touched := func(i int) bool { return i == 0 || (i >= 4 && i <= 7) }
	for k := 0; k < 3; k++ {
		x := byte(e >> (8 * uint(k)))
		if q+k < len(file) {
			if touched(q + k) {
				vAssume(x == 0)
			}
			file[q+k] ^= x
		} else {
			vAssume(x == 0)
		}
	}
	err1 := CheckIntegrity(bytes.NewReader(file), false)
	vAssert(err1 != nil, "C04.burst.checkintegrity-detects")
	_, err2 := Decode(bytes.NewReader(file))
	vAssert(err2 != nil, "C04.burst.decode-detects")
	vReached("end")
}

// H04sym: symbolic content. A frame with a 12-byte header and D symbolic data
// bytes that CheckIntegrity accepts; after a burst starting at byte q it must
// be rejected.
func H04sym() {
	D, q := vParam("D"), vParam("q")
	file := make([]byte, 12+D+2)
	vHeader14(file[:14], uint32(D))
	file[0] = 12
	vBytes(file[12:])
	orig := make([]byte, len(file))
	copy(orig, file)
	vAssume(CheckIntegrity(bytes.NewReader(orig), false) == nil)
	p := vU16()
	o := vByte() & 7
	vAssume(p != 0)
	e := uint32(p) << o
	for k := 0; k < 3; k++ {
		x := byte(e >> (8 * uint(k)))
		if q+k < len(file) {
			if q+k == 0 || (q+k >= 4 && q+k <= 7) {
				vAssume(x == 0)
			}
			file[q+k] ^= x
		} else {
			vAssume(x == 0)
		}
	}
	vAssert(CheckIntegrity(bytes.NewReader(file), false) != nil, "C04.sym.checkintegrity-detects")
	vReached("end")
}

var _ = binary.LittleEndian

// H04agree: the concrete small file with a stored header CRC of 0 ("not
// computed") or the computed one (arbitrary choice), file CRC over the bytes
// as stored: every entry point accepts it, in particular CheckIntegrity
// accepts what Decode accepts, also when the reader returns short reads
// (parameter chunk; 0 = as much as asked).
func H04agree() {
	file := vSmallFile()
	chunk := vParam("chunk")
	rd := func() *vReader { return &vReader{data: file, chunk: chunk, failAt: -1} }
	if vBool() {
		file[12], file[13] = 0, 0
		fc := dyncrc16.Checksum(file[:len(file)-2])
		file[len(file)-2], file[len(file)-1] = byte(fc), byte(fc>>8)
	}
	f, err := Decode(rd())
	vAssert(err == nil && f != nil, "C04.agree.decode-accepts")
	vAssert(CheckIntegrity(rd(), false) == nil, "C04.agree.checkintegrity-accepts-what-decode-accepts")
	vAssert(CheckIntegrity(rd(), true) == nil, "C04.agree.checkintegrity-header-accepts")
	h, herr := DecodeHeader(rd())
	vAssert(herr == nil, "C04.agree.decodeheader-accepts")
	vAssert(h.CheckIntegrity() == nil, "C04.agree.header-method-accepts")
	_, _, ierr := DecodeHeaderAndFileID(rd())
	vAssert(ierr == nil, "C04.agree.headerandfileid-accepts")
	// the same file followed by more input (the next file of a chain, or a
	// stray byte), through a reader that knows its length
	more := append(append([]byte{}, file...), file...)
	if vBool() {
		more = append(append([]byte{}, file...), vByte())
	}
	_, merr := Decode(bytes.NewReader(more))
	vAssert(merr == nil, "C04.agree.decode-accepts")
	vAssert(CheckIntegrity(bytes.NewReader(more), false) == nil, "C04.agree.checkintegrity-accepts-what-decode-accepts")
	vAssert(CheckIntegrity(bytes.NewBuffer(more), false) == nil, "C04.agree.checkintegrity-accepts-what-decode-accepts")
	vReached("end")
}
