//go:build verif

package fit

import "reflect"

// C03 — messages are routed, in order, to the typed container of the file's
// type.

// The 17 file types the FIT SDK defines for containers this library models
// (numbers from the FIT profile, independent of the library's constants).
var vFileTypes = [...]byte{1, 2, 3, 4, 5, 6, 7, 9, 10, 11, 14, 15, 20, 28, 32, 34, 35}

func vAccessors(f *File) ([17]interface{}, [17]error) {
	var c [17]interface{}
	var e [17]error
	c[0], e[0] = f.Device()
	c[1], e[1] = f.Settings()
	c[2], e[2] = f.Sport()
	c[3], e[3] = f.Activity()
	c[4], e[4] = f.Workout()
	c[5], e[5] = f.Course()
	c[6], e[6] = f.Schedules()
	c[7], e[7] = f.Weight()
	c[8], e[8] = f.Totals()
	c[9], e[9] = f.Goals()
	c[10], e[10] = f.BloodPressure()
	c[11], e[11] = f.MonitoringA()
	c[12], e[12] = f.ActivitySummary()
	c[13], e[13] = f.MonitoringDaily()
	c[14], e[14] = f.MonitoringB()
	c[15], e[15] = f.Segment()
	c[16], e[16] = f.SegmentList()
	return c, e
}

// H03a: all 256 file-type values. NewFile succeeds exactly for the 17 types;
// exactly the matching accessor returns a non-nil container and a nil error.
func H03a() {
	t := vByte()
	idx := -1
	for i, ft := range vFileTypes {
		if t == ft {
			idx = i
		}
	}
	f, err := NewFile(FileType(t), NewHeader(V20, true))
	vAssert((err == nil) == (idx >= 0), "C03.filetype.accepted-iff-known")
	if err != nil {
		vAssert(f == nil, "C03.filetype.rejected-nil")
		vReached("rejected")
		vReached("end")
		return
	}
	vAssert(f.Type() == FileType(t), "C03.filetype.type")
	c, e := vAccessors(f)
	for i := range c {
		if i == idx {
			vAssert(e[i] == nil && !reflect.ValueOf(c[i]).IsNil(), "C03.accessor.matching")
		} else {
			vAssert(e[i] != nil && reflect.ValueOf(c[i]).IsNil(), "C03.accessor.others-error")
		}
	}
	vReached("end")
}

// vContainer returns the container of file type index ti as a reflect.Value
// of the struct.
func vContainer(f *File, ti int) reflect.Value {
	c, _ := vAccessors(f)
	return reflect.ValueOf(c[ti]).Elem()
}

// vComponentDests lists, per message type name, the fields the container may
// legitimately change when it stores the message (component destinations).
func vComponentDests(name string) []string {
	switch name {
	case "RecordMsg":
		return []string{"EnhancedAltitude", "EnhancedSpeed", "Speed", "Distance", "TotalCycles", "AccumulatedPower"}
	case "LapMsg", "SessionMsg":
		return []string{"EnhancedAvgSpeed", "EnhancedMaxSpeed", "EnhancedAvgAltitude", "EnhancedMaxAltitude", "EnhancedMinAltitude"}
	case "SegmentLapMsg":
		return []string{"EnhancedAvgAltitude", "EnhancedMaxAltitude", "EnhancedMinAltitude"}
	case "EventMsg":
		return []string{"Data", "Score", "OpponentScore", "RearGearNum", "RearGear", "FrontGearNum", "FrontGear"}
	}
	return nil
}

// H03b: one add step. File type index ti, message number gmn (parameters).
// Pre-state: every slice of the container holds L (0..2, symbolic) distinct
// messages (for L = 0 either nil, as NewFile leaves it, or empty: symbolic),
// every single slot is nil or set (symbolic). The message is the
// all-invalid value with every integer field arbitrary. Oracle from the
// types: the unique container field of type *T or []*T.
func H03b() {
	ti, gmn := vParam("ti"), MesgNum(vParam("gmn"))
	f, err := NewFile(FileType(vFileTypes[ti]), NewHeader(V20, true))
	vAssert(err == nil, "C03.add.newfile")
	cont := vContainer(f, ti)
	accBefore, _ := vAccessors(f)
	L := vConcretize(vInt(0, 2))
	set := vBool()
	nilpre := vBool()
	// build the pre-state
	var before []reflect.Value
	for i := 0; i < cont.NumField(); i++ {
		fld := cont.Field(i)
		switch fld.Kind() {
		case reflect.Slice:
			if L == 0 && nilpre {
				break
			}
			s := reflect.MakeSlice(fld.Type(), L, L)
			for j := 0; j < L; j++ {
				s.Index(j).Set(reflect.New(fld.Type().Elem().Elem()))
			}
			fld.Set(s)
		case reflect.Ptr:
			if set {
				fld.Set(reflect.New(fld.Type().Elem()))
			}
		}
		before = append(before, reflect.ValueOf(fld.Interface()))
	}
	fileBefore := *f
	// the message
	msgv := getMesgAllInvalid(gmn)
	vHavoc(msgv.Addr().Interface())
	if gmn == MesgNumFileId {
		// a file_id repeated in the data section: same type as the file
		// (another type would change what the accessors return)
		msgv.Addr().Interface().(*FileIdMsg).Type = FileType(vFileTypes[ti])
	}
	mt := msgv.Type()
	// oracle: which slot hosts it
	slot := -1
	nslots := 0
	for i := 0; i < cont.NumField(); i++ {
		ft := cont.Field(i).Type()
		if ft.Kind() == reflect.Ptr && ft.Elem() == mt {
			slot = i
			nslots++
		}
		if ft.Kind() == reflect.Slice && ft.Elem().Kind() == reflect.Ptr && ft.Elem().Elem() == mt {
			slot = i
			nslots++
		}
	}
	vAssert(nslots <= 1, "C03.add.slot-unique")
	common := gmn == MesgNumFileId || gmn == MesgNumFileCreator || gmn == MesgNumTimestampCorrelation ||
		gmn == MesgNumFieldDescription || gmn == MesgNumDeveloperDataId
	copyv := reflect.New(mt).Elem()
	copyv.Set(msgv)

	f.add(msgv)

	// the container the accessor returns now (routing a message must not
	// replace it)
	accAfter, _ := vAccessors(f)
	vAssert(accAfter[ti] == accBefore[ti], "C03.add.container-kept")
	cont = vContainer(f, ti)
	for i := 0; i < cont.NumField(); i++ {
		fld := cont.Field(i)
		if i == slot && !common {
			var stored reflect.Value
			if fld.Kind() == reflect.Slice {
				vAssert(fld.Len() == L+1, "C03.add.appended-once")
				if fld.Len() != L+1 {
					continue
				}
				for j := 0; j < L; j++ {
					vAssert(fld.Index(j).Interface() == before[i].Index(j).Interface(), "C03.add.prefix-kept")
				}
				stored = fld.Index(L)
			} else {
				stored = fld
			}
			vAssert(!stored.IsNil(), "C03.add.stored")
			if !stored.IsNil() {
				vAssert(stored.Interface() != before[i].Interface() || fld.Kind() == reflect.Slice, "C03.add.single-slot-replaced")
				vSameExcept(stored.Elem().Interface(), copyv.Interface(), "C03.add.stored-equals-message", vComponentDests(mt.Name())...)
			}
			continue
		}
		// every other slot is untouched
		if fld.Kind() == reflect.Slice {
			vAssert(fld.Len() == L, "C03.add.others-untouched")
			if fld.Len() == L {
				for j := 0; j < L; j++ {
					vAssert(fld.Index(j).Interface() == before[i].Index(j).Interface(), "C03.add.others-untouched")
				}
			}
		} else if fld.Kind() == reflect.Ptr {
			vAssert(fld.Interface() == before[i].Interface(), "C03.add.others-untouched")
		}
	}
	// messages that belong to the File itself
	switch gmn {
	case MesgNumFileId:
		vSameExcept(f.FileId, copyv.Interface(), "C03.add.file-id")
	case MesgNumFileCreator:
		vAssert(f.FileCreator != nil && f.FileCreator != fileBefore.FileCreator, "C03.add.file-creator")
	case MesgNumTimestampCorrelation:
		vAssert(f.TimestampCorrelation != nil && f.TimestampCorrelation != fileBefore.TimestampCorrelation, "C03.add.timestamp-correlation")
	case MesgNumFieldDescription:
		vAssert(len(f.fieldDescriptionMsgs) == len(fileBefore.fieldDescriptionMsgs)+1, "C03.add.field-description")
	case MesgNumDeveloperDataId:
		vAssert(len(f.developerDataIdMsgs) == len(fileBefore.developerDataIdMsgs)+1, "C03.add.developer-data-id")
	default:
		vAssert(f.FileCreator == fileBefore.FileCreator && f.TimestampCorrelation == fileBefore.TimestampCorrelation &&
			len(f.fieldDescriptionMsgs) == len(fileBefore.fieldDescriptionMsgs) && len(f.developerDataIdMsgs) == len(fileBefore.developerDataIdMsgs), "C03.add.file-untouched")
	}
	vReached("end")
}
