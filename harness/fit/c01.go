//go:build verif

package fit

// C01 — decoding entry points are total.

// H01d: bounded whole run. Concrete 14-byte header with data size D, D + 2
// symbolic bytes after it, reader chunking by parameter.
func H01d() {
	D := vParam("D")
	chunk := vParam("chunk")
	buf := make([]byte, 14+D+2)
	vHeader14(buf, uint32(D))
	vBytes(buf[14:])
	r := &vReader{data: buf, chunk: chunk, failAt: -1}
	f, err := Decode(r)
	if err == nil {
		vAssert(f != nil, "C01.decode.file-nonnil")
		vAssert(r.pos == 14+D+2, "C10.decode.consumed")
		vReached("accepted")
	}
	vReached("end")
}
