//go:build verif && go1.18

package fit

import (
	"reflect"
	"encoding/binary"

	"github.com/tormoder/fit/internal/types"
)

// C01 — decoding entry points are total.

// H01d: bounded whole run. Concrete 14-byte header with data size D, D + 2
// symbolic bytes after it, reader chunking by parameter.
func H01d() {
	D := vParam("D")
	chunk := vParam("chunk")
	buf := make([]byte, 14+D+2)
	vHeader14(buf, uint32(D))
	vBytes(buf[14:])
	r := &vReader{data: buf, chunk: chunk, failAt: -1}
	f, err := Decode(r)
	if err == nil {
		vAssert(f != nil, "C01.decode.file-nonnil")
		vAssert(r.pos == 14+D+2, "C10.decode.consumed")
		vReached("accepted")
	}
	vReached("end")
}

// vStrSizes is the set of sizes run for string definitions in the quick
// tier; the scan for the terminator forks once per data byte, so the path
// count is quadratic in the size. The thorough tier runs every size.
var vStrSizes = func() (t [256]bool) {
	for i := 0; i <= 8; i++ {
		t[i] = true
	}
	for _, i := range []int{16, 127, 128, 254, 255} {
		t[i] = true
	}
	return
}()

// vNoOrder is handed to the parser as byte order where it must never be
// consulted (single-byte definition of a plain field): any call fails.
type vNoOrder struct{}

func (vNoOrder) Uint16(b []byte) uint16     { vAssert(false, "C01.field.order-consulted"); return 0 }
func (vNoOrder) Uint32(b []byte) uint32     { vAssert(false, "C01.field.order-consulted"); return 0 }
func (vNoOrder) Uint64(b []byte) uint64     { vAssert(false, "C01.field.order-consulted"); return 0 }
func (vNoOrder) PutUint16(b []byte, v uint16) {}
func (vNoOrder) PutUint32(b []byte, v uint32) {}
func (vNoOrder) PutUint64(b []byte, v uint64) {}
func (vNoOrder) String() string             { return "vNoOrder" }

// H01a: every single-field definition for one profile message (parameter
// gmn), followed by matching data. Symbolic: field number, base-type byte,
// size, byte order, the data bytes. Asserted: whatever the definition says,
// validation either rejects it or the data record decodes without panicking
// (reflect-model panics, bounds, nil) and consumes exactly size bytes.
//
// Control-flow drivers are case-split exhaustively (every feasible value of
// the base-type byte, and of the size for profile fields, becomes a path);
// data stays symbolic.
func H01a() {
	gmn := MesgNum(vParam("gmn"))
	allstr := vParam("allstr") == 1
	var d decoder
	// Both counting options on: they only add statements (the map updates);
	// that options never change results is C16's subject.
	vCountingOptions(&d)
	vMakeMap(&d.unknownFields)
	vMakeMap(&d.unknownMessages)
	fd := fieldDef{num: vByte(), size: vByte(), btype: types.Base(vByte())}
	if err := d.validateFieldDef(gmn, fd); err != nil {
		vReached("rejected")
		vReached("end")
		return
	}
	fd.btype = types.Base(vConcretize(int(fd.btype)))
	var data [255]byte
	var arch binary.ByteOrder = vNoOrder{}
	needOrder := fd.btype.Size() > 1
	pf, found := getField(gmn, fd.num)
	if found && knownMsgNums[gmn] {
		isStr := fd.btype == types.BaseString
		if isStr && !allstr {
			vAssume(vStrSizes[fd.size])
		}
		if isStr && pf.t.Array() {
			vStringArrayData(&fd, data[:], allstr)
		} else {
			fd.size = byte(vConcretize(int(fd.size)))
			vBytes(data[:fd.size])
		}
		if pf.t.Kind() != types.NativeFit {
			needOrder = true
		}
	}
	// (an unknown field's bytes are skipped unread: left zero, size symbolic)
	if needOrder {
		arch = vArch(vBool())
	}
	vFeed(&d, data[:])
	d.bytes.limit = int(fd.size)
	d.timestamp = vU32()
	d.lastTimeOffset = int32(d.timestamp & 31)
	dm := &defmsg{arch: arch, globalMsgNum: gmn, fields: 1, fieldDefs: []fieldDef{fd}}
	d.defmsgs[0] = dm
	msg, err := d.parseDataMessage(0, false)
	if err == nil {
		vAssert(msg.IsValid() == knownMsgNums[gmn], "C01.field.msg-valid-iff-known")
		vAssert(d.bytes.n == int(fd.size), "C01.field.consumed-size")
		vReached("decoded")
		if msg.IsValid() {
			// what decodeFileData does next: the message is handed to the
			// File, which routes it and expands its components. Every
			// file type that hosts the message, and the activity file.
			for ti := range vFileTypes {
				f, _ := NewFile(FileType(vFileTypes[ti]), NewHeader(V20, true))
				if ti == 3 || vHosts(f, ti, msg.Type()) {
					f.add(msg)
				}
			}
			vReached("routed")
		}
	}
	vReached("end")
}

// vHosts: the container of file type index ti has a slot (*T or []*T) for
// message type mt.
func vHosts(f *File, ti int, mt reflect.Type) bool {
	cont := vContainer(f, ti)
	for i := 0; i < cont.NumField(); i++ {
		ft := cont.Field(i).Type()
		if ft.Kind() == reflect.Ptr && ft.Elem() == mt {
			return true
		}
		if ft.Kind() == reflect.Slice && ft.Elem().Kind() == reflect.Ptr && ft.Elem().Elem() == mt {
			return true
		}
	}
	return false
}

// vStringArrayData prepares the data of a string-array definition. The
// splitter forks on every byte (terminator or not), 2^size paths, so: sizes
// 0..6 are fully symbolic; larger sizes get non-zero bytes with one
// terminator at an arbitrary position (or none); thorough: two terminators
// for sizes up to 24.
func vStringArrayData(fd *fieldDef, data []byte, thorough bool) {
	fd.size = byte(vConcretize(int(fd.size)))
	n := int(fd.size)
	if n <= 6 {
		vBytes(data[:n])
		return
	}
	for i := 0; i < n; i++ {
		data[i] = vByte() | 1
	}
	p := vConcretize(vInt(0, n)) // n: no terminator
	if p < n {
		data[p] = 0
	}
	if thorough && n <= 24 {
		q := vConcretize(vInt(0, n))
		if q < n {
			data[q] = 0
		}
	}
}

// H01s: totality on the stream model. Every entry point on a generated
// stream, whole and cut at an arbitrary offset, read in chunks: the only
// assertion is the engine's own "no Go panic, every loop within its unwinding
// bound". (The model streams include compressed-timestamp headers on messages
// with and without a timestamp field, unknown messages, developer fields and
// a second file_id record.)
func H01s() {
	s := vGenStream(vKindsParam(), vParam("crc") == 1)
	chunk := vParam("chunk")
	data := s.data
	if vParam("cut") == 1 {
		k := vConcretize(vInt(0, len(s.data)-1))
		data = s.data[:k]
	}
	lg := &vLogger{}
	_, _ = Decode(&vReader{data: data, chunk: chunk, failAt: -1}, WithLogger(lg), WithUnknownFields(), WithUnknownMessages())
	_, _ = Decode(&vReader{data: data, chunk: chunk, failAt: -1})
	_, _ = DecodeChained(&vReader{data: data, chunk: chunk, failAt: -1})
	_ = CheckIntegrity(&vReader{data: data, chunk: chunk, failAt: -1}, false)
	_ = CheckIntegrity(&vReader{data: data, chunk: chunk, failAt: -1}, true)
	_, _ = DecodeHeader(&vReader{data: data, chunk: chunk, failAt: -1})
	_, _, _ = DecodeHeaderAndFileID(&vReader{data: data, chunk: chunk, failAt: -1})
	vReached("entry-points-returned")
	vReached("end")
}
