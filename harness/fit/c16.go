//go:build verif && go1.18

package fit

import (
	"bytes"

	"github.com/tormoder/fit/dyncrc16"
)

// C16 — decode options only add information; unknown-item counts are exact.

// H16a: a generated stream (optionally cut at an arbitrary offset after the
// file_id record), decoded once without options and once with an arbitrary
// combination of logger / unknown-fields / unknown-messages options.
func H16a() {
	s := vGenStream(vKindsParam(), vParam("crc") == 1)
	data := s.data
	k := len(data)
	if vParam("cut") == 1 {
		k = vConcretize(vInt(s.fileIDEnd, len(data)-1))
		data = data[:k]
	}
	rb := &vReader{data: data, failAt: -1, chunk: vParam("chunk")}
	base, berr := Decode(rb)
	lg := &vLogger{}
	useLog, uf, um := vBool(), vBool(), vBool()
	var opts []DecodeOption
	if useLog {
		opts = append(opts, WithLogger(lg))
	}
	if uf {
		opts = append(opts, WithUnknownFields())
	}
	if um {
		opts = append(opts, WithUnknownMessages())
	}
	r := &vReader{data: data, failAt: -1, chunk: vParam("chunk")}
	f, err := Decode(r, opts...)
	vAssert((err == nil) == (berr == nil), "C16.options.same-error")
	vAssert(r.pos == rb.pos, "C16.options.same-bytes-consumed")
	vAssert((f == nil) == (base == nil), "C16.options.same-file-presence")
	if f != nil && base != nil {
		vSameContent(f, base, 3, "C16.options.same-messages")
		vAssert(f.Header == base.Header && f.CRC == base.CRC, "C16.options.same-messages")
	}
	if f == nil {
		vReached("end")
		return
	}
	// completed records of each kind before the cut, and whether one more was begun
	doneFld, doneMsg, begunFld, begunMsg := 0, 0, 0, 0
	prev := s.fileIDEnd
	// definitions precede the data records; find where data records start
	for i, e := range s.ends {
		start := prev
		if i == 0 {
			start = e - vRecLen(s.kinds[i])
		}
		switch s.kinds[i] {
		case vKindUnknownFld:
			if e <= k {
				doneFld++
			} else if start < k {
				begunFld++
			}
		case vKindUnknownMsg, vKindCompUnknown:
			if e <= k {
				doneMsg++
			} else if start < k {
				begunMsg++
			}
		}
		prev = e
	}
	if uf {
		vAssert(f.UnknownFields != nil, "C16.fields.list-returned")
		if doneFld+begunFld == 0 {
			vAssert(len(f.UnknownFields) == 0, "C16.fields.exact")
		} else if len(f.UnknownFields) == 1 {
			u := f.UnknownFields[0]
			vAssert(u.MesgNum == MesgNumRecord && u.FieldNum == s.unkFldNum, "C16.fields.exact")
			vAssert(u.Count >= doneFld && u.Count <= doneFld+begunFld, "C16.fields.exact")
		} else {
			vAssert(doneFld == 0 && len(f.UnknownFields) == 0, "C16.fields.exact")
		}
	} else {
		vAssert(f.UnknownFields == nil, "C16.fields.absent-without-option")
	}
	if um {
		vAssert(f.UnknownMessages != nil, "C16.messages.list-returned")
		if doneMsg+begunMsg == 0 {
			vAssert(len(f.UnknownMessages) == 0, "C16.messages.exact")
		} else if len(f.UnknownMessages) == 1 {
			u := f.UnknownMessages[0]
			vAssert(u.MesgNum == s.unkMsgNum, "C16.messages.exact")
			vAssert(u.Count >= doneMsg && u.Count <= doneMsg+begunMsg, "C16.messages.exact")
		} else {
			vAssert(doneMsg == 0 && len(f.UnknownMessages) == 0, "C16.messages.exact")
		}
	} else {
		vAssert(f.UnknownMessages == nil, "C16.messages.absent-without-option")
	}
	vReached("end")
}

func vRecLen(kind int) int {
	switch kind {
	case vKindRecord:
		return 6
	case vKindCompressed:
		return 2
	case vKindUnknownMsg, vKindCompUnknown:
		return 3
	case vKindUnknownFld:
		return 9
	case vKindDevField, vKindDevField2:
		return 5
	case vKindCompFileId:
		return 4
	}
	return 9 // lap, activity
}

// vKnownPick are known message numbers (two of them >= 256) the counting
// harness picks from.
var vKnownPick = [...]MesgNum{MesgNumRecord, MesgNumSession, MesgNumDeviceInfo, MesgNumExdDataFieldConfiguration, MesgNumDiveSettings, MesgNumDiveSummary}

// H16b: counts and order of the unknown lists. n times: a definition of a
// known message (one of vKnownPick) with one unlisted field (arbitrary
// number) and a data record of it, then a definition of an unknown message
// (arbitrary number) and a data record of it, all through the real
// decodeFileData loop as bytes, with both counting options on and an
// arbitrary map iteration order. The same key may come up several times
// (also through a new definition of the same local type). Each exported
// entry's count equals the number of records that carried its key, every key
// is listed once, and both lists are sorted.
func H16b() {
	var d decoder
	f, _ := NewFile(FileTypeActivity, NewHeader(V20, true))
	d.file = f
	vCountingOptions(&d)
	vMakeMap(&d.unknownFields)
	vMakeMap(&d.unknownMessages)
	vMapOrderSym(true)
	n := vParam("n")
	var kg [3]MesgNum
	var kn [3]byte
	var ku [3]MesgNum
	var s []byte
	for i := 0; i < n; i++ {
		g := vKnownPick[vConcretize(vInt(0, len(vKnownPick)-1))]
		num := vByte()
		_, found := getField(g, num)
		vAssume(!found)
		u := MesgNum(vU16())
		vAssume(!knownMsgNums[u] && u != MesgNumInvalid)
		kg[i], kn[i], ku[i] = g, num, u
		if vBool() {
			s = append(s, 0x40, 0, 0, byte(g), byte(g>>8), 1, num, 1, 0x0D, 0x00, 0x5A)
		} else {
			// the unlisted field declared as a zero-length string: the record carries it with no bytes
			s = append(s, 0x40, 0, 0, byte(g), byte(g>>8), 1, num, 0, 0x07, 0x00)
		}
		s = append(s, 0x41, 0, 0, byte(u), byte(u>>8), 0, 0x01)
	}
	var buf [64]byte
	copy(buf[:], s)
	vFeed(&d, buf[:])
	d.bytes.limit = len(s)
	err := d.decodeFileData()
	vAssert(err == nil && d.bytes.n == len(s), "C16.count.sequence-decodes")
	d.handleUnknownFields()
	d.handleUnknownMessages()
	uf, um := d.file.UnknownFields, d.file.UnknownMessages
	for i := range uf {
		ref := 0
		for k := 0; k < n; k++ {
			if kg[k] == uf[i].MesgNum && kn[k] == uf[i].FieldNum {
				ref++
			}
		}
		vAssert(ref > 0 && uf[i].Count == ref, "C16.fields.count-is-number-of-records")
		if i > 0 {
			a, b := uf[i-1], uf[i]
			vAssert(a.MesgNum < b.MesgNum || (a.MesgNum == b.MesgNum && a.FieldNum < b.FieldNum), "C16.fields.sorted")
		}
	}
	for k := 0; k < n; k++ {
		listed := 0
		for i := range uf {
			if kg[k] == uf[i].MesgNum && kn[k] == uf[i].FieldNum {
				listed++
			}
		}
		vAssert(listed == 1, "C16.fields.every-key-listed-once")
	}
	for i := range um {
		ref := 0
		for k := 0; k < n; k++ {
			if ku[k] == um[i].MesgNum {
				ref++
			}
		}
		vAssert(ref > 0 && um[i].Count == ref, "C16.messages.count-is-number-of-records")
		if i > 0 {
			vAssert(um[i-1].MesgNum < um[i].MesgNum, "C16.messages.sorted")
		}
	}
	for k := 0; k < n; k++ {
		listed := 0
		for i := range um {
			if ku[k] == um[i].MesgNum {
				listed++
			}
		}
		vAssert(listed == 1, "C16.messages.every-key-listed-once")
	}
	vReached("end")
}

// H16c: a failure right after the file_id record. The file_id record carries
// an arbitrary file type byte and one unlisted field; for the types NewFile
// rejects Decode fails before the record loop. Options do not change the
// error or the bytes consumed, and the file_id record — which was complete —
// is accounted for in the unknown-field list that is returned with the error.
func H16c() {
	t, num := vByte(), vByte()
	_, found := getField(MesgNumFileId, num)
	vAssume(!found)
	var body bytes.Buffer
	body.Write([]byte{0x40, 0, 0, 0, 0, 2, 0, 1, 0x00, num, 1, 0x02})
	body.Write([]byte{0x00, t, vByte()})
	body.Write([]byte{0x41, 0, 0, 20, 0, 1, 3, 1, 0x02, 0x01, 77})
	hdr := make([]byte, 14)
	vHeader14(hdr, uint32(body.Len()))
	var out bytes.Buffer
	out.Write(hdr)
	out.Write(body.Bytes())
	fc := dyncrc16.Checksum(out.Bytes())
	out.Write([]byte{byte(fc), byte(fc >> 8)})
	data := out.Bytes()
	rb := &vReader{data: data, failAt: -1}
	base, berr := Decode(rb)
	useLog, uf, um := vBool(), vBool(), vBool()
	var opts []DecodeOption
	if useLog {
		opts = append(opts, WithLogger(&vLogger{}))
	}
	if uf {
		opts = append(opts, WithUnknownFields())
	}
	if um {
		opts = append(opts, WithUnknownMessages())
	}
	r := &vReader{data: data, failAt: -1}
	f, err := Decode(r, opts...)
	vAssert((err == nil) == (berr == nil) && r.pos == rb.pos && (f == nil) == (base == nil), "C16.options.same-error")
	if f != nil && uf {
		ok := len(f.UnknownFields) == 1
		if ok {
			u := f.UnknownFields[0]
			ok = u.MesgNum == MesgNumFileId && u.FieldNum == num && u.Count == 1
		}
		vAssert(ok, "C16.fields.completed-file-id-record-is-accounted-for")
		if err != nil {
			vReached("failed-after-file-id")
		}
	}
	if f != nil && um {
		vAssert(f.UnknownMessages != nil && len(f.UnknownMessages) == 0, "C16.messages.exact")
	}
	vReached("end")
}

// H16d: compressed-timestamp records before any reference time exists (no
// explicit timestamp in the file), arbitrary offsets: every option
// combination returns the messages the option-free decode returns.
func H16d() {
	var body bytes.Buffer
	body.Write([]byte{0x40, 0, 0, 0, 0, 2, 0, 1, 0x00, 1, 2, 0x84})
	body.Write([]byte{0x00, 4, 1, 0})
	body.Write([]byte{0x41, 0, 0, 20, 0, 1, 3, 1, 0x02})
	body.Write([]byte{0x80 | 1<<5 | vByte()&0x1F, vByte()})
	body.Write([]byte{0x80 | 1<<5 | vByte()&0x1F, vByte()})
	hdr := make([]byte, 14)
	vHeader14(hdr, uint32(body.Len()))
	var out bytes.Buffer
	out.Write(hdr)
	out.Write(body.Bytes())
	fc := dyncrc16.Checksum(out.Bytes())
	out.Write([]byte{byte(fc), byte(fc >> 8)})
	data := out.Bytes()
	base, berr := Decode(bytes.NewReader(data))
	useLog, uf, um := vBool(), vBool(), vBool()
	var opts []DecodeOption
	if useLog {
		opts = append(opts, WithLogger(&vLogger{}))
	}
	if uf {
		opts = append(opts, WithUnknownFields())
	}
	if um {
		opts = append(opts, WithUnknownMessages())
	}
	f, err := Decode(bytes.NewReader(data), opts...)
	vAssert(berr == nil && err == nil && f != nil && base != nil, "C16.noref.decodes")
	if f != nil && base != nil {
		vSameContent(f, base, 3, "C16.options.same-messages")
	}
	vReached("end")
}
