//go:build verif

package fit

// C16 — decode options only add information; unknown-item counts are exact.

// H16a: a generated stream (optionally cut at an arbitrary offset after the
// file_id record), decoded once without options and once with an arbitrary
// combination of logger / unknown-fields / unknown-messages options.
func H16a() {
	s := vGenStream(vKindsParam(), vParam("crc") == 1)
	data := s.data
	k := len(data)
	if vParam("cut") == 1 {
		k = vConcretize(vInt(s.fileIDEnd, len(data)-1))
		data = data[:k]
	}
	rb := &vReader{data: data, failAt: -1, chunk: vParam("chunk")}
	base, berr := Decode(rb)
	lg := &vLogger{}
	useLog, uf, um := vBool(), vBool(), vBool()
	var opts []DecodeOption
	if useLog {
		opts = append(opts, WithLogger(lg))
	}
	if uf {
		opts = append(opts, WithUnknownFields())
	}
	if um {
		opts = append(opts, WithUnknownMessages())
	}
	r := &vReader{data: data, failAt: -1, chunk: vParam("chunk")}
	f, err := Decode(r, opts...)
	vAssert((err == nil) == (berr == nil), "C16.options.same-error")
	vAssert(r.pos == rb.pos, "C16.options.same-bytes-consumed")
	vAssert((f == nil) == (base == nil), "C16.options.same-file-presence")
	if f != nil && base != nil {
		vSameContent(f, base, 3, "C16.options.same-messages")
		vAssert(f.Header == base.Header && f.CRC == base.CRC, "C16.options.same-messages")
	}
	if f == nil {
		vReached("end")
		return
	}
	// completed records of each kind before the cut, and whether one more was begun
	doneFld, doneMsg, begunFld, begunMsg := 0, 0, 0, 0
	prev := s.fileIDEnd
	// definitions precede the data records; find where data records start
	for i, e := range s.ends {
		start := prev
		if i == 0 {
			start = e - vRecLen(s.kinds[i])
		}
		switch s.kinds[i] {
		case vKindUnknownFld:
			if e <= k {
				doneFld++
			} else if start < k {
				begunFld++
			}
		case vKindUnknownMsg, vKindCompUnknown:
			if e <= k {
				doneMsg++
			} else if start < k {
				begunMsg++
			}
		}
		prev = e
	}
	if uf {
		vAssert(f.UnknownFields != nil, "C16.fields.list-returned")
		if doneFld+begunFld == 0 {
			vAssert(len(f.UnknownFields) == 0, "C16.fields.exact")
		} else if len(f.UnknownFields) == 1 {
			u := f.UnknownFields[0]
			vAssert(u.MesgNum == MesgNumRecord && u.FieldNum == s.unkFldNum, "C16.fields.exact")
			vAssert(u.Count >= doneFld && u.Count <= doneFld+begunFld, "C16.fields.exact")
		} else {
			vAssert(doneFld == 0 && len(f.UnknownFields) == 0, "C16.fields.exact")
		}
	} else {
		vAssert(f.UnknownFields == nil, "C16.fields.absent-without-option")
	}
	if um {
		vAssert(f.UnknownMessages != nil, "C16.messages.list-returned")
		if doneMsg+begunMsg == 0 {
			vAssert(len(f.UnknownMessages) == 0, "C16.messages.exact")
		} else if len(f.UnknownMessages) == 1 {
			u := f.UnknownMessages[0]
			vAssert(u.MesgNum == s.unkMsgNum, "C16.messages.exact")
			vAssert(u.Count >= doneMsg && u.Count <= doneMsg+begunMsg, "C16.messages.exact")
		} else {
			vAssert(doneMsg == 0 && len(f.UnknownMessages) == 0, "C16.messages.exact")
		}
	} else {
		vAssert(f.UnknownMessages == nil, "C16.messages.absent-without-option")
	}
	vReached("end")
}

func vRecLen(kind int) int {
	switch kind {
	case vKindRecord:
		return 6
	case vKindCompressed:
		return 2
	case vKindUnknownMsg, vKindCompUnknown:
		return 3
	case vKindUnknownFld:
		return 9
	case vKindDevField, vKindDevField2:
		return 5
	case vKindCompFileId:
		return 4
	}
	return 9 // lap, activity
}

// H16b: the unknown lists are sorted. Three arbitrary keys are counted in an
// arbitrary map order and exported by the real handlers.
func H16b() {
	var d decoder
	d.file = new(File)
	d.unknownFields = make(map[unknownField]int)
	d.unknownMessages = make(map[MesgNum]int)
	vMapOrderSym(true)
	n := vParam("n")
	for i := 0; i < n; i++ {
		d.unknownFields[unknownField{MesgNum(vU16()), vByte()}]++
		d.unknownMessages[MesgNum(vU16())]++
	}
	d.handleUnknownFields()
	d.handleUnknownMessages()
	uf, um := d.file.UnknownFields, d.file.UnknownMessages
	total := 0
	for i := range uf {
		total += uf[i].Count
		if i > 0 {
			a, b := uf[i-1], uf[i]
			vAssert(a.MesgNum < b.MesgNum || (a.MesgNum == b.MesgNum && a.FieldNum < b.FieldNum), "C16.fields.sorted")
		}
	}
	vAssert(total == n && len(uf) == len(d.unknownFields), "C16.fields.counts-preserved")
	total = 0
	for i := range um {
		total += um[i].Count
		if i > 0 {
			vAssert(um[i-1].MesgNum < um[i].MesgNum, "C16.messages.sorted")
		}
	}
	vAssert(total == n && len(um) == len(d.unknownMessages), "C16.messages.counts-preserved")
	vReached("end")
}
