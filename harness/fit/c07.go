//go:build verif

package fit

import (
	"bytes"
	"encoding/binary"
	"reflect"
	"time"
	"unicode/utf8"

	"github.com/tormoder/fit/dyncrc16"
	"github.com/tormoder/fit/internal/types"
)

// C07 — anything Decode accepts can be re-encoded, and one round trip is a
// fixpoint.

// vContent compares two Files of the same type on message counts per slot
// and, for the message type mt, on every field (strings and arrays up to the
// profile length: handled by comparing the decoded forms, which already are
// what the profile lengths allow).
func vSameContent(a, b *File, ti int, id string) {
	vAssert(a.Type() == b.Type(), id)
	ca, cb := vContainer(a, ti), vContainer(b, ti)
	for i := 0; i < ca.NumField(); i++ {
		fa, fb := ca.Field(i), cb.Field(i)
		if fa.Kind() == reflect.Slice {
			vAssert(fa.Len() == fb.Len(), id)
			if fa.Len() == fb.Len() {
				for j := 0; j < fa.Len(); j++ {
					vSameExcept(fa.Index(j).Elem().Interface(), fb.Index(j).Elem().Interface(), id)
				}
			}
		} else {
			vAssert(fa.IsNil() == fb.IsNil(), id)
			if !fa.IsNil() && !fb.IsNil() {
				vSameExcept(fa.Elem().Interface(), fb.Elem().Interface(), id)
			}
		}
	}
	vSameExcept(a.FileId, b.FileId, id)
}

// H07a: a message produced by the real record parser from an arbitrary
// accepted single-field definition (profile field of message gmn) and
// arbitrary data, stored in a File of type ti the way Decode stores it, must
// be encodable; the output must pass CheckIntegrity and decode to the same
// content, and a second round trip must change nothing.
//
// mode 0: string and array fields only (the shapes on which encodability can
// depend); mode 1: every field.
func H07a() {
	ti, gmn, mode := vParam("ti"), MesgNum(vParam("gmn")), vParam("mode")
	var d decoder
	fd := fieldDef{num: vByte(), size: vByte(), btype: types.Base(vByte())}
	pf, found := getField(gmn, fd.num)
	if !found {
		vReached("end")
		return
	}
	pbt := pf.t.BaseType()
	if mode == 0 && !(pf.t.Array() || pbt == types.BaseString) {
		vReached("end")
		return
	}
	if err := d.validateFieldDef(gmn, fd); err != nil {
		vReached("end")
		return
	}
	fd.btype = types.Base(vConcretize(int(fd.btype)))
	var data [255]byte
	if fd.btype == types.BaseString {
		// sizes 1..3 fully symbolic; sizes around the profile length with an
		// ASCII prefix and three arbitrary bytes at the end (the truncation
		// boundary); string arrays: sizes 1..3
		L := int(pf.length)
		fd.size = byte(vConcretize(int(fd.size)))
		n := int(fd.size)
		small := n >= 1 && n <= 3
		edge := !pf.t.Array() && (n == L-1 || n == L || n == L+1) && n > 3
		if !small && !edge {
			vReached("end")
			return
		}
		for i := 0; i < n; i++ {
			data[i] = 'a'
		}
		k := n - 3
		if k < 0 {
			k = 0
		}
		vBytes(data[k:n])
	} else {
		fd.size = byte(vConcretize(int(fd.size)))
		if pf.t.Array() && int(fd.size) > 4*fd.btype.Size() && fd.size != 255 && int(fd.size) != int(pf.length)*fd.btype.Size() && int(fd.size) != (int(pf.length)+1)*fd.btype.Size() {
			// arrays: up to 4 elements, the profile length, one more, and the maximum
			vReached("end")
			return
		}
		vBytes(data[:fd.size])
	}
	var arch binary.ByteOrder = vNoOrder{}
	if fd.btype.Size() > 1 || pf.t.Kind() != types.NativeFit {
		arch = vArch(vBool())
	}
	vFeed(&d, data[:])
	d.bytes.limit = int(fd.size)
	d.defmsgs[0] = &defmsg{arch: arch, globalMsgNum: gmn, fields: 1, fieldDefs: []fieldDef{fd}}
	msg, err := d.parseDataMessage(0, false)
	if err != nil || !msg.IsValid() {
		vReached("end")
		return
	}
	f, ferr := NewFile(FileType(vFileTypes[ti]), NewHeader(V20, true))
	vAssert(ferr == nil, "C07.harness.newfile")
	f.add(msg)
	if gmn == MesgNumFileId {
		// in a stream the file_id message is what fixed the file type
		f.FileId.Type = FileType(vFileTypes[ti])
	}

	// the byte order of the re-encoding is the caller's choice (by message
	// number, so that both orders occur for every field class)
	var order1, order2 binary.ByteOrder = binary.LittleEndian, binary.BigEndian
	if (int(gmn)+ti)%2 == 1 {
		order1, order2 = binary.BigEndian, binary.LittleEndian
	}
	var w1 bytes.Buffer
	err = Encode(&w1, f, order1)
	// Known finding: a decoded string that is not valid UTF-8 cannot be
	// encoded. (The profile's string-array fields live in messages no
	// container hosts, so the encoder's refusal of them is not reachable.)
	if fd.btype == types.BaseString {
		fv := msg.Field(pf.sindex)
		if !pf.t.Array() {
			vKnownNext("KF-C07-invalid-utf8-string-not-encodable", !utf8.ValidString(fv.String()))
		}
	}
	vAssert(err == nil, "C07.encode-accepts-decoded")
	if err != nil {
		vReached("end")
		return
	}
	out1 := w1.Bytes()
	vAssert(CheckIntegrity(bytes.NewReader(out1), false) == nil, "C07.output-passes-checkintegrity")
	g, derr := Decode(bytes.NewReader(out1))
	vAssert(derr == nil && g != nil, "C07.output-decodes")
	if derr != nil || g == nil {
		vReached("end")
		return
	}
	// second round trip is a fixpoint
	var w2 bytes.Buffer
	err = Encode(&w2, g, order2)
	vAssert(err == nil, "C07.second-encode")
	if err != nil {
		vReached("end")
		return
	}
	h, herr := Decode(bytes.NewReader(w2.Bytes()))
	vAssert(herr == nil && h != nil, "C07.second-decode")
	if herr == nil && h != nil {
		// Known finding: a record's compressed_speed_distance writes speed
		// only after enhanced_speed was derived, so enhanced_speed appears one
		// round trip late.
		vKnown("KF-C07-compressed-speed-rederives-enhanced-speed", gmn == MesgNumRecord && pf.num == 8)
		vSameContent(g, h, ti, "C07.fixpoint")
	}
	// first round trip keeps numeric, time and coordinate values; strings and
	// arrays up to the profile length
	gc, fc := vContainer(g, ti), vContainer(f, ti)
	for i := 0; i < fc.NumField(); i++ {
		a, b := gc.Field(i), fc.Field(i)
		if a.Kind() == reflect.Slice {
			vAssert(a.Len() == b.Len(), "C07.counts")
			if a.Len() == b.Len() {
				for j := 0; j < a.Len(); j++ {
					vSameUpToProfile(a.Index(j).Elem(), b.Index(j).Elem())
				}
			}
		} else {
			vAssert(a.IsNil() == b.IsNil(), "C07.counts")
			if !a.IsNil() && !b.IsNil() {
				vSameUpToProfile(a.Elem(), b.Elem())
			}
		}
	}
	if gmn == MesgNumFileId {
		vSameUpToProfile(reflect.ValueOf(g.FileId), reflect.ValueOf(f.FileId))
	}
	vReached("roundtrip")
	vReached("end")
}

// vSameUpToProfile compares a re-decoded message (got) with the message first
// decoded (orig): scalars, times and coordinates equal; arrays equal on the
// elements the profile length keeps (and present when the original was);
// strings: the re-decoded one is a prefix of the original that lost at most
// what the profile length cuts off. Component destinations are skipped.
func vSameUpToProfile(got, orig reflect.Value) {
	gmn := getGlobalMesgNum(orig.Type())
	skip := vComponentDests(orig.Type().Name())
	tab := profileFieldDef(gmn)
	for i := 0; i < orig.NumField(); i++ {
		name := vFieldName(orig.Interface(), i)
		sk := false
		for _, s := range skip {
			if s == name {
				sk = true
			}
		}
		if sk {
			continue
		}
		pf := getFieldBySindex(i, tab)
		L := int(pf.length)
		a, b := got.Field(i), orig.Field(i)
		switch b.Kind() {
		case reflect.Slice:
			if b.Type().Elem().Kind() == reflect.String {
				continue // string arrays cannot be encoded (messages that carry them are not hosted)
			}
			n := b.Len()
			if n > L {
				n = L
			}
			ok := a.Len() >= n
			if ok {
				for j := 0; j < n; j++ {
					if a.Index(j).Interface() != b.Index(j).Interface() {
						ok = false
					}
				}
			}
			vAssert(ok, "C07.values.array-up-to-profile-length")
			if ok && a.Len() > n && b.Len() > 0 {
				// beyond the elements the input had: invalid padding only
				bt := pf.t.BaseType()
				inv := vInvalidBits(bt)
				pad := true
				for j := n; j < a.Len(); j++ {
					switch e := a.Index(j); e.Kind() {
					case reflect.Uint8, reflect.Uint16, reflect.Uint32, reflect.Uint64:
						pad = pad && e.Uint() == inv
					case reflect.Int8, reflect.Int16, reflect.Int32, reflect.Int64:
						pad = pad && e.Int() == vSext(inv, bt.Size())
					}
				}
				vAssert(pad, "C07.values.array-rest-is-invalid-padding")
			}
		case reflect.String:
			sa, sb := a.String(), b.String()
			ok := len(sa) <= len(sb) && sb[:len(sa)] == sa
			keep := len(sb)
			if keep > L-1 {
				keep = L - 1
			}
			vAssert(ok && len(sa) >= keep-3, "C07.values.string-up-to-profile-length")
		case reflect.Struct:
			if ta, isT := a.Interface().(time.Time); isT {
				tb := b.Interface().(time.Time)
				_, oa := ta.Zone()
				_, ob := tb.Zone()
				vAssert(ta.Unix()+int64(oa) == tb.Unix()+int64(ob), "C07.values.time")
			} else {
				vAssert(a.Interface() == b.Interface(), "C07.values.coordinate")
			}
		default:
			vAssert(a.Interface() == b.Interface(), "C07.values.scalar")
		}
	}
}

// H07b: the header of the input is arbitrary where Decode does not pin it:
// protocol version and profile version bytes symbolic (header CRC recomputed
// or left 0), 12- or 14-byte header. Whatever Decode accepts, Encode of the
// result must succeed, pass CheckIntegrity and decode to the same content.
func H07b() {
	file := vSmallFile()
	if vBool() {
		// 12-byte header
		file = append([]byte{}, file[:12]...)
		file[0] = 12
		file = append(file, vSmallFile()[14:len(vSmallFile())-2]...)
		file = append(file, 0, 0)
	}
	hs := int(file[0])
	file[1] = vByte()
	file[2], file[3] = vByte(), vByte()
	if hs == 14 {
		if vBool() {
			c := dyncrc16.Checksum(file[:12])
			file[12], file[13] = byte(c), byte(c>>8)
		} else {
			file[12], file[13] = 0, 0
		}
	}
	fc := dyncrc16.Checksum(file[:len(file)-2])
	file[len(file)-2], file[len(file)-1] = byte(fc), byte(fc>>8)
	f, err := Decode(bytes.NewReader(file))
	if err != nil || f == nil {
		vReached("rejected")
		vReached("end")
		return
	}
	vReached("accepted")
	var order binary.ByteOrder = binary.LittleEndian
	if vBool() {
		order = binary.BigEndian
	}
	var w bytes.Buffer
	eerr := Encode(&w, f, order)
	vAssert(eerr == nil, "C07.encode-accepts-decoded")
	if eerr == nil {
		vAssert(CheckIntegrity(bytes.NewReader(w.Bytes()), false) == nil, "C07.output-passes-checkintegrity")
		g, gerr := Decode(bytes.NewReader(w.Bytes()))
		vAssert(gerr == nil && g != nil, "C07.output-decodes")
		if gerr == nil && g != nil {
			vSameContent(f, g, 3, "C07.fixpoint")
			vAssert(g.Header.ProtocolVersion == f.Header.ProtocolVersion && g.Header.ProfileVersion == f.Header.ProfileVersion, "C07.header-versions-kept")
		}
	}
	vReached("end")
}
