//go:build verif

package fit

import (
	"bytes"

	"github.com/tormoder/fit/dyncrc16"
)

// A small model of FIT streams: an activity file made of a file_id record
// followed by n records, each of one of several kinds. The generator returns
// the bytes, the record end offsets, and what a correct decoder must report.

const (
	vKindRecord     = iota // known message (record), known fields
	vKindUnknownMsg        // a message number the profile does not know
	vKindUnknownFld        // record with one extra unlisted field
	vKindDevField          // record with a developer field
	vKindCompressed        // compressed-timestamp header record
	vKindLap               // lap message
	vKindActivity          // activity message with timestamp and local_timestamp
	vKindCompUnknown       // compressed-timestamp header on the unknown message (local 2)
	vKindCompFileId        // compressed-timestamp header on a message without timestamp field (file_id, local 0)
	vKindDevField2         // record with one 3-byte developer field (local 7, defined after local 4)
	vNumKinds
)

type vStreamInfo struct {
	data       []byte
	ends       []int // end offset (exclusive) of every data record after file_id, in stream order
	kinds      []int
	nRecords   int // record messages expected in the container
	nLaps      int
	nActivities int
	actTs, actLocal uint32 // timestamp and local_timestamp of the last activity record
	unkMsgNum  MesgNum
	unkFldNum  byte
	nUnkMsg    int
	nUnkFld    int
	hdr        int
	fileIDEnd  int
}

// vGenStream builds the stream for the given kinds. Values that do not
// affect structure are nondeterministic.
func vGenStream(kinds []int, hdrCRC bool) *vStreamInfo {
	s := &vStreamInfo{hdr: 12}
	if hdrCRC {
		s.hdr = 14
	}
	var body bytes.Buffer
	// local 0: file_id: type(enum) manufacturer(uint16); in streams with a
	// 12-byte header the definition is big-endian and also carries
	// product(uint16), so that both shapes of the first record occur
	manu := []byte{vByte(), vByte()}
	fileID := []byte{4, manu[0], manu[1]}
	if hdrCRC {
		body.Write([]byte{0x40, 0, 0, 0, 0, 2, 0, 1, 0x00, 1, 2, 0x84})
	} else {
		body.Write([]byte{0x40, 0, 1, 0, 0, 3, 0, 1, 0x00, 1, 2, 0x84, 2, 2, 0x84})
		fileID = append(fileID, vByte(), vByte())
	}
	body.WriteByte(0x00)
	body.Write(fileID)
	s.fileIDEnd = s.hdr + body.Len()
	// an unknown message number and an unlisted record field number
	s.unkMsgNum = MesgNum(0xFF00 | uint16(vByte()&0x7F))
	s.unkFldNum = 200 + vByte()&0x0F
	// definitions (all little-endian except local 3)
	// local 1: record: heart_rate(3,uint8) only — addressed by compressed-timestamp
	// headers, so its timestamp comes from the compressed-timestamp rule
	body.Write([]byte{0x41, 0, 0, 20, 0, 1, 3, 1, 0x02})
	// local 8: record: timestamp(253,uint32) heart_rate(3,uint8)
	body.Write([]byte{0x48, 0, 0, 20, 0, 2, 253, 4, 0x86, 3, 1, 0x02})
	// local 2: unknown message, one field of 2 bytes
	body.Write([]byte{0x42, 0, 0, byte(s.unkMsgNum), byte(s.unkMsgNum >> 8), 1, 0, 2, 0x84})
	// local 3: record, big-endian: timestamp, unlisted field (3 bytes), heart_rate
	body.Write([]byte{0x43, 0, 1, 0, 20, 3, 253, 4, 0x86, s.unkFldNum, 3, 0x0D, 3, 1, 0x02})
	// local 4 (with developer data): record: heart_rate + two developer fields of 2 and 1 bytes
	body.Write([]byte{0x64, 0, 0, 20, 0, 1, 3, 1, 0x02, 2, 0, 2, 0, 1, 1, 0})
	// local 5: lap: timestamp, total_elapsed_time(7,uint32)
	body.Write([]byte{0x45, 0, 0, 19, 0, 2, 253, 4, 0x86, 7, 4, 0x86})
	// local 6: activity: timestamp, local_timestamp(5,uint32)
	body.Write([]byte{0x46, 0, 0, 34, 0, 2, 253, 4, 0x86, 5, 4, 0x86})
	// local 7 (with developer data, defined after local 4): record: heart_rate + one developer field of 3 bytes
	body.Write([]byte{0x67, 0, 0, 20, 0, 1, 3, 1, 0x02, 1, 5, 3, 0})
	// every stream starts with one plain record, so that a reference
	// timestamp exists before the n records of the sequence
	kinds = append([]int{vKindRecord}, kinds...)
	for _, k := range kinds {
		switch k {
		case vKindRecord:
			body.Write([]byte{0x08, vByte(), vByte(), vByte(), 0x20, vByte()})
			s.nRecords++
		case vKindUnknownMsg:
			body.Write([]byte{0x02, vByte(), vByte()})
			s.nUnkMsg++
		case vKindUnknownFld:
			body.Write([]byte{0x03, 0x20, vByte(), vByte(), vByte(), vByte(), vByte(), vByte(), vByte()})
			s.nRecords++
			s.nUnkFld++
		case vKindDevField:
			body.Write([]byte{0x04, vByte(), vByte(), vByte(), vByte()})
			s.nRecords++
		case vKindDevField2:
			body.Write([]byte{0x07, vByte(), vByte(), vByte(), vByte()})
			s.nRecords++
		case vKindCompUnknown:
			body.Write([]byte{0x80 | 2<<5 | vByte()&0x1F, vByte(), vByte()})
			s.nUnkMsg++
		case vKindCompFileId:
			// a second file_id record (same content) under a compressed header
			body.WriteByte(0x80 | 0<<5 | vByte()&0x1F)
			body.Write(fileID)
		case vKindCompressed:
			// local 1 is 0..3-addressable: compressed header, local type 1, offset arbitrary
			body.Write([]byte{0x80 | 1<<5 | vByte()&0x1F, vByte()})
			s.nRecords++
		case vKindLap:
			body.Write([]byte{0x05, vByte(), vByte(), vByte(), 0x20, vByte(), vByte(), vByte(), vByte()})
			s.nLaps++
		case vKindActivity:
			b := []byte{0x06, vByte(), vByte(), vByte(), 0x20, vByte(), vByte(), vByte(), 0x20}
			body.Write(b)
			s.nActivities++
			s.actTs = uint32(b[1]) | uint32(b[2])<<8 | uint32(b[3])<<16 | uint32(b[4])<<24
			s.actLocal = uint32(b[5]) | uint32(b[6])<<8 | uint32(b[7])<<16 | uint32(b[8])<<24
		}
		s.ends = append(s.ends, s.hdr+body.Len())
		s.kinds = append(s.kinds, k)
	}
	hdr := make([]byte, 14)
	vHeader14(hdr, uint32(body.Len()))
	hdr[0] = byte(s.hdr)
	if hdrCRC {
		c := dyncrc16.Checksum(hdr[:12])
		hdr[12], hdr[13] = byte(c), byte(c>>8)
	}
	var out bytes.Buffer
	out.Write(hdr[:s.hdr])
	out.Write(body.Bytes())
	fc := dyncrc16.Checksum(out.Bytes())
	out.Write([]byte{byte(fc), byte(fc >> 8)})
	s.data = out.Bytes()
	return s
}

// vKindsParam decodes the "kinds" parameter: base-vNumKinds digits, n of them.
func vKindsParam() []int {
	n, code := vParam("n"), vParam("kinds")
	ks := make([]int, n)
	for i := 0; i < n; i++ {
		ks[i] = code % vNumKinds
		code /= vNumKinds
	}
	return ks
}
