//go:build verif

package fit

import (
	"bytes"
	"encoding/binary"

	"github.com/tormoder/fit/dyncrc16"
)

// Streams at the size limits of the wire format, shared by C01, C08, C09,
// C10: a file_id record with `extra` unlisted 255-byte fields (17 of them put
// the end of the file_id record beyond the decoder's 4096-byte buffer), a
// record definition with 90 one-byte fields (3 x 90 > 255), and a definition
// with the developer flag and 5 developer fields of 255 bytes (5 x 255 > the
// 765-byte scratch buffer), and a definition with 90 developer fields of one
// byte (3 x 90 > 255). A few payload bytes are arbitrary.

type vWide struct {
	data      []byte
	frame     int
	fileIDEnd int
	hr        [4]byte // heart rates of the four records
	manu      uint16
}

func vWideStream(extra int, hrLast bool) *vWide { return vWideStreamSym(extra, hrLast, true) }

// vWideStreamSym: with sym = false every byte is concrete (for the harnesses
// that only watch where writes go: a checksum over 8 KiB with a symbolic
// state is a term nobody needs).
func vWideStreamSym(extra int, hrLast bool, sym bool) *vWide {
	w := &vWide{}
	nb := func(c byte) byte {
		if sym {
			return vByte()
		}
		return c
	}
	var body bytes.Buffer
	// local 0: file_id
	body.Write([]byte{0x40, 0, 0, 0, 0, byte(2 + extra), 0, 1, 0x00, 1, 2, 0x84})
	for i := 0; i < extra; i++ {
		body.Write([]byte{byte(200 + i), 255, 0x0D})
	}
	w.manu = uint16(nb(7)) | uint16(nb(1))<<8
	body.Write([]byte{0x00, 4, byte(w.manu), byte(w.manu >> 8)})
	for i := 0; i < extra; i++ {
		for k := 0; k < 255; k++ {
			body.WriteByte(byte(i + k))
		}
	}
	w.fileIDEnd = 14 + body.Len()
	// local 1: record with 90 one-byte fields, heart_rate (3) first or last
	body.Write([]byte{0x41, 0, 0, 20, 0, 90})
	for i := 0; i < 90; i++ {
		isHr := (i == 0 && !hrLast) || (i == 89 && hrLast)
		if isHr {
			body.Write([]byte{3, 1, 0x02})
		} else {
			body.Write([]byte{byte(100 + i), 1, 0x0D})
		}
	}
	w.hr[0], w.hr[1], w.hr[2], w.hr[3] = nb(101), nb(102), nb(103), nb(104)
	body.WriteByte(0x01)
	for i := 0; i < 90; i++ {
		isHr := (i == 0 && !hrLast) || (i == 89 && hrLast)
		if isHr {
			body.WriteByte(w.hr[0])
		} else {
			body.WriteByte(byte(0x80 | i))
		}
	}
	// local 2: record with heart_rate and 5 developer fields of 255 bytes
	body.Write([]byte{0x62, 0, 0, 20, 0, 1, 3, 1, 0x02, 5, 0, 255, 0, 1, 255, 0, 2, 255, 0, 3, 255, 0, 4, 255, 0})
	for r := 1; r <= 3; r++ {
		body.WriteByte(0x02)
		body.WriteByte(w.hr[r])
		for k := 0; k < 5*255; k++ {
			body.WriteByte(0xE0 | byte(k&15))
		}
	}
	// local 3: record with heart_rate and 90 developer fields of one byte (3 x 90 > 255)
	body.Write([]byte{0x63, 0, 0, 20, 0, 1, 3, 1, 0x02, 90})
	for i := 0; i < 90; i++ {
		body.Write([]byte{byte(i), 1, 0})
	}
	body.WriteByte(0x03)
	body.WriteByte(w.hr[0])
	for i := 0; i < 90; i++ {
		body.WriteByte(0xE0 | byte(i&15))
	}
	hdr := make([]byte, 14)
	vHeader14(hdr, uint32(body.Len()))
	c := dyncrc16.Checksum(hdr[:12])
	hdr[12], hdr[13] = byte(c), byte(c>>8)
	var out bytes.Buffer
	out.Write(hdr)
	out.Write(body.Bytes())
	var fc uint16
	if sym {
		fc = dyncrc16.Checksum(out.Bytes())
	} else {
		// the harness's own bit-serial CRC-16/ARC, so that building the
		// stream leaves no trace in the library (a lazily built table would
		// already exist when the calls under observation start)
		fc = vCRC16(out.Bytes())
	}
	out.Write([]byte{byte(fc), byte(fc >> 8)})
	w.frame = out.Len()
	out.Write([]byte{0xAA, 0xBB}) // bytes after the frame that nobody may ask for
	w.data = out.Bytes()
	return w
}

func vCRC16(p []byte) uint16 {
	var c uint16
	for _, b := range p {
		c ^= uint16(b)
		for k := 0; k < 8; k++ {
			if c&1 != 0 {
				c = c>>1 ^ 0xA001
			} else {
				c >>= 1
			}
		}
	}
	return c
}

func (w *vWide) check(f *File, id string) {
	ok := f != nil && f.FileId.Manufacturer == Manufacturer(w.manu) && f.FileId.Type == FileTypeActivity
	if ok {
		a, err := f.Activity()
		ok = err == nil && len(a.Records) == 5 && a.Records[4].HeartRate == w.hr[0]
		if ok {
			for i := range w.hr {
				ok = ok && a.Records[i].HeartRate == w.hr[i]
			}
		}
	}
	vAssert(ok, id)
}

// Hwide: every decoding entry point on a wide stream, read in chunks
// (parameter; 0 = as much as asked). No panic (C01); Decode accepts it and
// returns the values on the wire (C02); exact consumption, nothing requested
// beyond the frame, DecodeHeaderAndFileID reports what Decode reports (C10).
func Hwide() {
	vUnwind(20000)
	w := vWideStream(vParam("extra"), vParam("hrlast") == 1)
	chunk := vParam("chunk")
	mk := func() *vReader { return &vReader{data: w.data, chunk: chunk, failAt: -1} }
	r := mk()
	f, err := Decode(r, WithUnknownFields(), WithUnknownMessages())
	vAssert(err == nil && f != nil, "C10.wide.decode-accepts-valid-stream")
	vAssert(err == nil && f != nil, "C02.wide.decode-accepts-valid-stream")
	vAssert(r.pos == w.frame && r.maxEnd <= w.frame, "C10.wide.consumes-exactly-the-frame")
	w.check(f, "C02.wide.values")
	r = mk()
	vAssert(CheckIntegrity(r, false) == nil, "C10.wide.checkintegrity-accepts")
	vAssert(r.pos == w.frame && r.maxEnd <= w.frame, "C10.wide.checkintegrity-consumes-exactly-the-frame")
	r = mk()
	h, id, ierr := DecodeHeaderAndFileID(r)
	vAssert(ierr == nil, "C10.wide.headerandfileid-accepts")
	vAssert(ierr == nil && f != nil && h == f.Header && id.Type == f.FileId.Type && id.Manufacturer == f.FileId.Manufacturer, "C10.wide.headerandfileid-same-as-decode")
	vAssert(r.maxEnd <= w.frame, "C10.wide.headerandfileid-stays-inside-the-frame")
	r = mk()
	h2, herr := DecodeHeader(r)
	vAssert(herr == nil && f != nil && h2 == f.Header && r.maxEnd <= w.frame, "C10.wide.header-same-as-decode")
	// a chain of the frame twice
	two := append(append([]byte{}, w.data[:w.frame]...), w.data[:w.frame]...)
	files, cerr := DecodeChained(&vReader{data: two, chunk: chunk, failAt: -1})
	vAssert(cerr == nil && len(files) == 2, "C10.wide.chained-one-file-per-input")
	if cerr == nil && len(files) == 2 {
		w.check(files[1], "C10.wide.chained-equals-decoding-alone")
	}
	vReached("end")
}

// Hwide8: purity and non-interference on wide streams: two decodes of two
// different wide streams (in parallel in the native replay) write no object
// that exists before the call, and a stream decodes to the same values after
// the other one was decoded.
func Hwide8() {
	vUnwind(200000)
	// (17 extra fields: the data area is larger than 8 KiB)
	a := vWideStreamSym(17, false, false)
	b := vWideStreamSym(17, true, false)
	vResetAccumulators()
	vTrackShared(true)
	var fa, fb *File
	var ea, eb error
	var ia, ib error
	vPar(func() {
		fa, ea = Decode(bytes.NewReader(a.data))
		ia = CheckIntegrity(bytes.NewReader(a.data), false)
	}, func() {
		ib = CheckIntegrity(bytes.NewReader(b.data), false)
		fb, eb = Decode(bytes.NewReader(b.data))
	})
	vAssert(vSharedWrites() == 0, "C08.frame.no-state-survives-a-call")
	vAssert(vSharedWrites() == 0, "C09.no-shared-object-is-written")
	vTrackShared(false)
	vAssert(ea == nil && eb == nil && ia == nil && ib == nil, "C08.wide.decodes")
	vAssert(ia == nil && ib == nil, "C09.same-result-as-alone")
	a.check(fa, "C09.same-result-as-alone")
	b.check(fb, "C09.same-result-as-alone")
	fa2, _ := Decode(bytes.NewReader(a.data))
	a.check(fa2, "C08.sequence.decode-independent-of-history")
	vReached("end")
}

var _ = binary.LittleEndian
