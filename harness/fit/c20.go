//go:build verif && verifgen

package fit

// C20 — every profile constant prints its profile name. The table
// vC20Types / vC20String / vC20Default is generated from go/types of the
// current tree by the driver (engine/gen.go).

func H20meta() {
	vOut("ntypes", len(vC20Types))
	n := 0
	for _, t := range vC20Types {
		n += len(t.consts)
	}
	vOut("nconsts", n)
	vReached("end")
}

// H20: one type (parameter), receiver symbolic over its full width.
func H20() {
	ti := vParam("ti")
	t := vC20Types[ti]
	var x uint64
	switch t.bits {
	case 8:
		x = uint64(vByte())
	case 16:
		x = uint64(vU16())
	case 32:
		x = uint64(vU32())
	default:
		x = vU64()
	}
	s := vC20String(ti, x)
	for i, c := range t.consts {
		if i > 0 && t.consts[i-1].val == c.val {
			continue
		}
		if x == c.val {
			ok := false
			for _, c2 := range t.consts {
				if c2.val == c.val && s == c2.name {
					ok = true
				}
			}
			vAssert(ok, "C20.constant-prints-its-name")
			vReached("constant")
			vReached("end")
			return
		}
	}
	vAssert(s == vC20Default(ti, x), "C20.other-values-print-type-and-number")
	vReached("other")
	vReached("end")
}
