//go:build verif && go1.18

package fit

import (
	"encoding/binary"
	"errors"
	"io"

	"github.com/tormoder/fit/dyncrc16"
)

// vReader is the io.Reader handed to the decoders: it serves data in chunks
// of at most chunk bytes, ends with io.EOF, or fails persistently with a
// non-EOF error from offset failAt on.
type vReader struct {
	data   []byte
	pos    int
	chunk  int
	failAt int // -1: never
	reads  int
	maxEnd int // furthest stream offset any Read call asked for
	// withErr: the Read call that delivers the last bytes before the end
	// (or before the fault) returns them together with the error, as
	// io.Reader allows, instead of on the next call
	withErr bool
	faultErr error // the error a fault returns (default vErrFault)
}

func (r *vReader) fault() error {
	if r.faultErr != nil {
		return r.faultErr
	}
	return vErrFault
}

var vErrFault = errors.New("verif: injected read fault")

func (r *vReader) Read(p []byte) (int, error) {
	r.reads++
	if len(p) == 0 {
		return 0, nil
	}
	if r.pos+len(p) > r.maxEnd {
		r.maxEnd = r.pos + len(p)
	}
	if r.failAt >= 0 && r.pos >= r.failAt {
		return 0, r.fault()
	}
	avail := len(r.data) - r.pos
	if r.failAt >= 0 && r.failAt-r.pos < avail {
		avail = r.failAt - r.pos
	}
	if avail <= 0 {
		return 0, io.EOF
	}
	n := len(p)
	if n > avail {
		n = avail
	}
	if r.chunk > 0 && n > r.chunk {
		n = r.chunk
	}
	copy(p[:n], r.data[r.pos:r.pos+n])
	r.pos += n
	if r.withErr {
		if r.failAt >= 0 && r.pos >= r.failAt {
			return n, r.fault()
		}
		if r.pos >= len(r.data) {
			return n, io.EOF
		}
	}
	return n, nil
}

// vLogger is a Logger with no effects.
type vLogger struct{ calls int }

func (l *vLogger) Print(args ...interface{})                 { l.calls++ }
func (l *vLogger) Printf(format string, args ...interface{}) { l.calls++ }
func (l *vLogger) Println(args ...interface{})               { l.calls++ }

// vHeader14 writes a 14-byte header with the given data size and a zero
// (unchecked) header CRC.
func vHeader14(buf []byte, dataSize uint32) {
	buf[0] = 14
	buf[1] = 0x10
	buf[2], buf[3] = 0x54, 0x08
	buf[4], buf[5], buf[6], buf[7] = byte(dataSize), byte(dataSize>>8), byte(dataSize>>16), byte(dataSize>>24)
	buf[8], buf[9], buf[10], buf[11] = '.', 'F', 'I', 'T'
	buf[12], buf[13] = 0, 0
}

// vFeed places data in the decoder's buffer as if it had just been read from
// the stream, with the data-size limit exactly at its end.
func vFeed(d *decoder, data []byte) {
	copy(d.bytes.buf[:], data)
	d.bytes.i, d.bytes.j = 0, len(data)
	d.bytes.n = 0
	d.bytes.limit = len(data)
	d.crc = dyncrc16.New()
}

func vArch(big bool) binary.ByteOrder {
	if big {
		return be
	}
	return le
}

// vPut32 stores x in the given byte order.
func vPut32(p []byte, x uint32, big bool) {
	if big {
		p[0], p[1], p[2], p[3] = byte(x>>24), byte(x>>16), byte(x>>8), byte(x)
	} else {
		p[0], p[1], p[2], p[3] = byte(x), byte(x>>8), byte(x>>16), byte(x>>24)
	}
}

// vMakeMap allocates the map *p points at without naming its type, so that
// harnesses which switch a decoder's counting options on by hand keep
// compiling when the library changes how it represents the counters.
func vMakeMap[M ~map[K]V, K comparable, V any](p *M) { *p = make(M) }

// vCountingOptions switches both counting options on through the public
// option functions (not by naming the option struct's fields).
func vCountingOptions(d *decoder) {
	for _, o := range []DecodeOption{WithUnknownFields(), WithUnknownMessages()} {
		o(&d.opts)
	}
}
