//go:build verif

package fit

import "github.com/tormoder/fit/internal/types"

// C12 — timestamps follow the FIT time rules, including compressed headers.

// H12a: one compressed-timestamp record from an arbitrary reference state.
// Inv_ts: timestamp != 0 => lastTimeOffset == timestamp & 31. Reference: the
// SDK rule on the 5 least significant bits with 32-second rollover.
func H12a() {
	var d decoder
	d.timestamp = vU32()
	last := vByte() & 31
	d.lastTimeOffset = int32(last)
	vAssume(d.timestamp == 0 || uint32(last) == d.timestamp&31)
	hdr := vByte()
	vAssume(hdr&0x80 != 0)
	local := (hdr >> 5) & 3
	d.defmsgs[local] = &defmsg{localMsgType: local, arch: le, globalMsgNum: MesgNumRecord}
	ts0 := d.timestamp
	msg, err := d.parseDataMessage(hdr, true)
	vAssert(err == nil && msg.IsValid(), "C12.compressed.parses")
	rec := msg.Interface().(RecordMsg)
	off := uint32(hdr & 31)
	if ts0 == 0 {
		vAssert(rec.Timestamp.Equal(timeBase), "C12.compressed.noref-untouched")
		vAssert(d.timestamp == 0, "C12.compressed.noref-state")
	} else {
		want := ts0&^31 + off
		if off < ts0&31 {
			want += 32
		}
		vAssert(rec.Timestamp.Equal(decodeDateTime(want)), "C12.compressed.rule")
		vAssert(d.timestamp == want, "C12.compressed.state")
		vAssert(d.lastTimeOffset == int32(want&31), "C12.compressed.inv")
	}
	vReached("end")
}

// H12b: an explicit timestamp field (number 253) decodes to epoch + seconds,
// re-bases the reference and re-establishes Inv_ts; 0xFFFFFFFF leaves the
// invalid base time and the reference alone. Byte order by parameter.
func H12b() {
	big := vParam("big") == 1
	var d decoder
	d.timestamp = vU32()
	d.lastTimeOffset = int32(vByte() & 31)
	ts0, lo0 := d.timestamp, d.lastTimeOffset
	x := vU32()
	var data [4]byte
	vPut32(data[:], x, big)
	vFeed(&d, data[:])
	dm := &defmsg{arch: vArch(big), globalMsgNum: MesgNumRecord, fields: 1,
		fieldDefs: []fieldDef{{num: 253, size: 4, btype: types.BaseUint32}}}
	d.defmsgs[0] = dm
	msg, err := d.parseDataMessage(0, false)
	vAssert(err == nil && msg.IsValid(), "C12.explicit.parses")
	rec := msg.Interface().(RecordMsg)
	if x == 0xFFFFFFFF {
		vAssert(rec.Timestamp.Equal(timeBase) && IsBaseTime(rec.Timestamp), "C12.explicit.invalid-is-basetime")
		vAssert(d.timestamp == ts0 && d.lastTimeOffset == lo0, "C12.explicit.invalid-keeps-reference")
	} else {
		vAssert(rec.Timestamp.Equal(decodeDateTime(x)), "C12.explicit.value")
		vAssert(rec.Timestamp.Sub(timeBase).Nanoseconds() == int64(x)*1000000000, "C12.explicit.epoch-plus-seconds")
		vAssert(d.timestamp == x, "C12.explicit.rebases")
		vAssert(d.lastTimeOffset == int32(x&31), "C12.explicit.inv")
	}
	vReached("end")
}

// H12c: a date_time field that is not field 253 (session.start_time) decodes
// by the same epoch rule and does not touch the reference.
func H12c() {
	big := vParam("big") == 1
	var d decoder
	d.timestamp = vU32()
	d.lastTimeOffset = int32(vByte() & 31)
	ts0, lo0 := d.timestamp, d.lastTimeOffset
	x := vU32()
	var data [4]byte
	vPut32(data[:], x, big)
	vFeed(&d, data[:])
	d.defmsgs[0] = &defmsg{arch: vArch(big), globalMsgNum: MesgNumSession, fields: 1,
		fieldDefs: []fieldDef{{num: 2, size: 4, btype: types.BaseUint32}}}
	msg, err := d.parseDataMessage(0, false)
	vAssert(err == nil && msg.IsValid(), "C12.utc.parses")
	s := msg.Interface().(SessionMsg)
	if x == 0xFFFFFFFF {
		vAssert(IsBaseTime(s.StartTime), "C12.utc.invalid-is-basetime")
	} else {
		vAssert(s.StartTime.Equal(decodeDateTime(x)), "C12.utc.value")
	}
	vAssert(d.timestamp == ts0 && d.lastTimeOffset == lo0, "C12.utc.keeps-reference")
	vReached("end")
}

// H12d: local_date_time (activity.local_timestamp, field 5): the result is
// the reference UTC instant in a fixed zone whose offset is local - UTC, so
// its wall-clock reading is epoch + stored seconds; offset 0 without a
// reference.
func H12d() {
	big := vParam("big") == 1
	var d decoder
	d.timestamp = vU32()
	d.lastTimeOffset = int32(d.timestamp & 31)
	ref := d.timestamp
	x := vU32()
	var data [4]byte
	vPut32(data[:], x, big)
	vFeed(&d, data[:])
	d.defmsgs[0] = &defmsg{arch: vArch(big), globalMsgNum: MesgNumActivity, fields: 1,
		fieldDefs: []fieldDef{{num: 5, size: 4, btype: types.BaseUint32}}}
	msg, err := d.parseDataMessage(0, false)
	vAssert(err == nil && msg.IsValid(), "C12.local.parses")
	a := msg.Interface().(ActivityMsg)
	t := a.LocalTimestamp
	if x == 0xFFFFFFFF {
		vAssert(IsBaseTime(t), "C12.local.invalid-is-basetime")
	} else {
		_, off := t.Zone()
		epochUnix := timeBase.Unix()
		// wall-clock reading = instant + zone offset = epoch + stored seconds
		vAssert(t.Unix()+int64(off) == epochUnix+int64(x), "C12.local.wallclock")
		if ref == 0 {
			vAssert(off == 0, "C12.local.noref-offset0")
			vAssert(t.Equal(decodeDateTime(x)), "C12.local.noref-instant")
		} else if ref >= systemTimeMarker {
			vAssert(int64(off) == int64(x)-int64(ref), "C12.local.offset")
			vAssert(t.Equal(decodeDateTime(ref)), "C12.local.instant-is-reference")
		}
	}
	vReached("end")
}

// vRule is the SDK's compressed-timestamp rule.
func vRule(ref uint32, off uint32) uint32 {
	want := ref&^31 + off
	if off < ref&31 {
		want += 32
	}
	return want
}

// H12e: sequences through the public record parser: an explicit timestamp T,
// optionally an activity.local_timestamp L in between (parameter), then a
// compressed-timestamp record with offset o, then a second one with offset
// o2. Every compressed record gets the latest preceding timestamp advanced by
// the rule; a local_date_time field is not a timestamp and must not re-base.
func H12e() {
	big := vParam("big") == 1
	withLocal := vParam("local") == 1
	var d decoder
	T := vU32()
	vAssume(T != 0xFFFFFFFF)
	var data [8]byte
	vPut32(data[0:4], T, big)
	L := vU32()
	vPut32(data[4:8], L, big)
	vFeed(&d, data[:])
	d.defmsgs[0] = &defmsg{arch: vArch(big), globalMsgNum: MesgNumRecord, fields: 1,
		fieldDefs: []fieldDef{{num: 253, size: 4, btype: types.BaseUint32}}}
	d.defmsgs[1] = &defmsg{localMsgType: 1, arch: vArch(big), globalMsgNum: MesgNumActivity, fields: 1,
		fieldDefs: []fieldDef{{num: 5, size: 4, btype: types.BaseUint32}}}
	d.defmsgs[2] = &defmsg{localMsgType: 2, arch: vArch(big), globalMsgNum: MesgNumRecord}
	_, err := d.parseDataMessage(0, false)
	vAssert(err == nil, "C12.sequence.parses")
	if withLocal {
		vAssume(L != 0xFFFFFFFF)
		_, err = d.parseDataMessage(1, false)
		vAssert(err == nil, "C12.sequence.parses")
		// Known finding: with a reference below the system-time marker
		// (including 0) the local timestamp overwrites the reference.
		vKnown("KF-C12-local-overwrites-weak-reference", T < systemTimeMarker)
	}
	// Known finding: an explicit timestamp of 0 is treated as "no reference".
	vKnown("KF-C12-zero-timestamp-is-no-reference", T == 0)
	o := uint32(vByte() & 31)
	msg, err := d.parseDataMessage(0x80|2<<5|byte(o), true)
	vAssert(err == nil && msg.IsValid(), "C12.sequence.parses")
	want := vRule(T, o)
	vAssert(msg.Interface().(RecordMsg).Timestamp.Equal(decodeDateTime(want)), "C12.sequence.first-compressed")
	if vParam("mid") == 1 {
		vKnown("KF-C12-zero-timestamp-is-no-reference", want == 0)
		// a compressed-timestamp record of a message without a timestamp
		// field (hrv; or a message the profile does not know) is consumed
		// like any other: it advances the reference
		om := uint32(vByte() & 31)
		g := MesgNumHrv
		if vBool() {
			g = MesgNum(0xFF42)
		}
		d.defmsgs[3] = &defmsg{localMsgType: 3, arch: vArch(big), globalMsgNum: g}
		_, err = d.parseDataMessage(0x80|3<<5|byte(om), true)
		vAssert(err == nil, "C12.sequence.parses")
		want = vRule(want, om)
		vKnown("KF-C12-zero-timestamp-is-no-reference", want == 0)
	}
	// (the same finding when the 32-bit rule wraps the reference to 0)
	vKnown("KF-C12-zero-timestamp-is-no-reference", want == 0)
	o2 := uint32(vByte() & 31)
	msg, err = d.parseDataMessage(0x80|2<<5|byte(o2), true)
	vAssert(err == nil && msg.IsValid(), "C12.sequence.parses")
	want2 := vRule(want, o2)
	vAssert(msg.Interface().(RecordMsg).Timestamp.Equal(decodeDateTime(want2)), "C12.sequence.second-compressed")
	vReached("end")
}
