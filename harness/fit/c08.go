//go:build verif

package fit

import (
	"bytes"
	"encoding/binary"
	"reflect"

	"github.com/tormoder/fit/dyncrc16"
	"github.com/tormoder/fit/internal/types"
)

// C08 — decoding and encoding are pure; C09 — concurrent use on independent
// inputs (reduced to the non-interference premise, see DESIGN.md).

// vCsdStream is an activity file whose two records carry the accumulated
// sources: compressed_speed_distance (8), cycles (18) and
// compressed_accumulated_power (28), with arbitrary values.
func vCsdStream(nrec int, symbolic bool) []byte {
	var body bytes.Buffer
	body.Write([]byte{0x40, 0, 0, 0, 0, 2, 0, 1, 0x00, 1, 2, 0x84})
	body.Write([]byte{0x00, 4, 1, 0})
	body.Write([]byte{0x41, 0, 0, 20, 0, 3, 8, 3, 0x0D, 18, 1, 0x02, 28, 2, 0x84})
	for i := 0; i < nrec; i++ {
		if symbolic {
			// arbitrary valid sources (an invalid source leaves its destination alone: C18)
			b := []byte{0x01, vByte(), vByte(), vByte(), vByte(), vByte(), vByte()}
			vAssume(b[1] != 0xFF && b[4] != 0xFF && (b[5] != 0xFF || b[6] != 0xFF))
			body.Write(b)
		} else {
			body.Write([]byte{0x01, byte(16 * i), byte(0x21 + i), byte(3 + i), byte(7 * (i + 1)), byte(9 + i), 1})
		}
	}
	hdr := make([]byte, 14)
	vHeader14(hdr, uint32(body.Len()))
	c := dyncrc16.Checksum(hdr[:12])
	hdr[12], hdr[13] = byte(c), byte(c>>8)
	var out bytes.Buffer
	out.Write(hdr)
	out.Write(body.Bytes())
	fc := dyncrc16.Checksum(out.Bytes())
	out.Write([]byte{byte(fc), byte(fc >> 8)})
	return out.Bytes()
}

// H08a: shared-state frame. Every entry point runs on a model stream with
// write tracking on: a store into any object that existed before the call
// (package-level variables and everything package initialisation allocated)
// is state that survives the call.
func H08a() {
	s := vGenStream(vKindsParam(), true)
	csd := vCsdStream(2, false)
	vResetAccumulators()
	vTrackShared(true)
	f, err := Decode(bytes.NewReader(s.data), WithUnknownFields(), WithUnknownMessages())
	_, _ = DecodeChained(bytes.NewReader(s.data))
	_ = CheckIntegrity(bytes.NewReader(s.data), false)
	_, _ = DecodeHeader(bytes.NewReader(s.data))
	_, _, _ = DecodeHeaderAndFileID(bytes.NewReader(s.data))
	var w bytes.Buffer
	if err == nil {
		_ = Encode(&w, f, binary.BigEndian)
	}
	vAssert(vSharedWrites() == 0, "C08.frame.no-state-survives-a-call")
	// the component accumulators are the exception
	g, gerr := Decode(bytes.NewReader(csd))
	vAssert(gerr == nil && g != nil, "C08.frame.csd-stream-decodes")
	vAssert(vSharedWrites()-vSharedWritesTo("accumu") == 0, "C08.frame.no-state-survives-a-call")
	vKnownNext("KF-C08-accumulators-process-global", true)
	vAssert(vSharedWritesTo("accumu") == 0, "C08.frame.accumulators-are-per-call")
	vTrackShared(false)
	vReached("end")
}

// H08b: arbitrary history = arbitrary pre-state of the package-level
// variables the decode path writes. Decoding from that state must equal
// decoding in a fresh process.
func H08b() {
	data := vCsdStream(1, true)
	vResetAccumulators()
	a, ea := Decode(bytes.NewReader(data))
	vAssert(ea == nil && a != nil, "C08.history.decodes")
	vResetAccumulators()
	if vBool() {
		accumuDistance = &uint32Accumulator{accumuValue: vU32(), lastValue: vU32(), mask: 0xFFF}
	}
	if vBool() {
		accumuTotalCycles = &uint32Accumulator{accumuValue: vU32(), lastValue: vU32()}
	}
	if vBool() {
		accumuAccumulatedPower = &uint32Accumulator{accumuValue: vU32(), lastValue: vU32()}
	}
	b, eb := Decode(bytes.NewReader(data))
	vAssert(eb == nil && b != nil, "C08.history.decodes")
	if a != nil && b != nil {
		vKnown("KF-C08-accumulators-process-global", true)
		vSameContent(a, b, 3, "C08.history.decode-independent-of-history")
	}
	vReached("end")
}

// H08d: call history over the stream model. Stream B is decoded first (fresh
// state), then stream A is decoded, encoded and integrity-checked, then B is
// decoded again: both results for B must be deeply equal (times by instant
// and zone offset), and so must the bytes Encode writes for them.
func H08d() {
	sB := vGenStream(vKindsParam(), true)
	sA := vGenStream([]int{vKindActivity, vKindRecord, vKindActivity}, false)
	vResetAccumulators()
	// some history before B is ever seen
	_, _ = Decode(bytes.NewReader(sA.data))
	b0, e0 := Decode(bytes.NewReader(sB.data))
	a, ea := Decode(bytes.NewReader(sA.data))
	if ea == nil {
		var wa bytes.Buffer
		_ = Encode(&wa, a, binary.BigEndian)
	}
	_ = CheckIntegrity(bytes.NewReader(sA.data), false)
	_, _ = DecodeChained(bytes.NewReader(sA.data))
	b1, e1 := Decode(bytes.NewReader(sB.data))
	vAssert(e0 == nil && e1 == nil && b0 != nil && b1 != nil, "C08.sequence.decodes")
	// and the value itself is the one a fresh process gives (C12's rule):
	// whatever was decoded before, the activity's local timestamp is the
	// timestamp's instant in a zone whose offset is local - UTC
	if b1 != nil && sB.nActivities > 0 {
		act, _ := b1.Activity()
		ok := act != nil && act.Activity != nil
		if ok {
			_, off := act.Activity.LocalTimestamp.Zone()
			ok = int64(off) == int64(sB.actLocal)-int64(sB.actTs) && act.Activity.LocalTimestamp.Equal(decodeDateTime(sB.actTs))
		}
		vAssert(ok, "C08.sequence.local-time-as-in-a-fresh-process")
	}
	if b0 != nil && b1 != nil {
		vSameContent(b0, b1, 3, "C08.sequence.decode-independent-of-history")
		vAssert(b0.Header == b1.Header && b0.CRC == b1.CRC, "C08.sequence.decode-independent-of-history")
		var w0, w1 bytes.Buffer
		x0 := Encode(&w0, b0, binary.LittleEndian)
		x1 := Encode(&w1, b1, binary.LittleEndian)
		vAssert((x0 == nil) == (x1 == nil) && bytes.Equal(w0.Bytes(), w1.Bytes()), "C08.sequence.encode-independent-of-history")
	}
	vReached("end")
}

// H08c: Encode writes identical bytes for identical Files. The File has two
// records with different fields set (so the union definition is built from a
// map); the engine runs the two encodings under independent arbitrary map
// iteration orders, the native replay repeats the encoding.
func H08c() {
	f, _ := NewFile(FileTypeActivity, NewHeader(V20, true))
	a, _ := f.Activity()
	r1, r2 := NewRecordMsg(), NewRecordMsg()
	r1.HeartRate = vByte()
	r2.Power = vU16()
	vAssume(r1.HeartRate != 0xFF && r2.Power != 0xFFFF)
	a.Records = []*RecordMsg{r1, r2}
	vMapOrderSym(true)
	var first bytes.Buffer
	vAssert(Encode(&first, f, binary.LittleEndian) == nil, "C08.encode.succeeds")
	same := true
	for i := 0; i < vNativeRepeat(64); i++ {
		var again bytes.Buffer
		vAssert(Encode(&again, f, binary.LittleEndian) == nil, "C08.encode.succeeds")
		if !bytes.Equal(first.Bytes(), again.Bytes()) {
			same = false
		}
	}
	vAssert(same, "C08.encode.identical-bytes-for-identical-files")
	vMapOrderSym(false)
	// and what it wrote decodes to the same content whatever came before
	g, err := Decode(bytes.NewReader(first.Bytes()))
	vAssert(err == nil && g != nil, "C08.encode.output-decodes")
	vReached("end")
}

// H09: two independent calls. Under the engine they run one after the other
// with write tracking (premise P: no shared object is written); in the native
// replay they run concurrently under the race detector.
func H09() {
	s1 := vGenStream(vKindsParam(), true)
	s2 := vGenStream([]int{vKindLap, vKindCompressed, vKindUnknownFld, vKindUnknownMsg}, false)
	vResetAccumulators()
	vTrackShared(true)
	var f1, f2 *File
	var e1, e2 error
	var w1 bytes.Buffer
	// one option value, built once, handed to both calls (options are
	// values a caller may keep in a package-level slice)
	opts := []DecodeOption{WithUnknownFields(), WithUnknownMessages()}
	vPar(func() {
		f1, e1 = Decode(bytes.NewReader(s1.data), opts...)
		if e1 == nil {
			_ = Encode(&w1, f1, binary.LittleEndian)
		}
		_ = CheckIntegrity(bytes.NewReader(s1.data), false)
	}, func() {
		f2, e2 = Decode(bytes.NewReader(s2.data), opts...)
		_, _ = DecodeChained(bytes.NewReader(s2.data), opts...)
		_ = CheckIntegrity(bytes.NewReader(s2.data), false)
	})
	vAssert(vSharedWrites() == 0, "C09.no-shared-object-is-written")
	vTrackShared(false)
	// each call returned what it returns when run alone
	a1, ae1 := Decode(bytes.NewReader(s1.data), WithUnknownFields(), WithUnknownMessages())
	a2, ae2 := Decode(bytes.NewReader(s2.data), WithUnknownFields(), WithUnknownMessages())
	vAssert((e1 == nil) == (ae1 == nil) && (e2 == nil) == (ae2 == nil), "C09.same-result-as-alone")
	if f1 != nil && a1 != nil && f2 != nil && a2 != nil {
		vSameContent(f1, a1, 3, "C09.same-result-as-alone")
		vSameContent(f2, a2, 3, "C09.same-result-as-alone")
	}
	vReached("end")
}

// H09acc: the known exception: two decodes of streams with accumulated
// record fields write the same package-level accumulators.
func H09acc() {
	d1, d2 := vCsdStream(2, false), vCsdStream(2, false)
	vResetAccumulators()
	vTrackShared(true)
	vPar(func() { _, _ = Decode(bytes.NewReader(d1)) }, func() { _, _ = Decode(bytes.NewReader(d2)) })
	vKnownNext("KF-C09-accumulators-race", true)
	vAssert(vSharedWrites() == 0, "C09.race-free")
	vTrackShared(false)
	vReached("end")
}

// vAllFieldsFile is a File of type index ti hosting one message gmn with
// every field set (fixed values; strings of slen arbitrary ASCII characters, arrays of
// strings left unset since Encode refuses them). nil when ti does not host gmn.
func vAllFieldsFile(ti int, gmn MesgNum, slen int) *File {
	f, err := NewFile(FileType(vFileTypes[ti]), NewHeader(V20, true))
	vAssert(err == nil, "C08.harness.newfile")
	msgv := getMesgAllInvalid(gmn)
	for i := 0; i < msgv.NumField(); i++ {
		pf := getFieldBySindex(i, profileFieldDef(gmn))
		if pf.t.BaseType() == types.BaseString {
			if !pf.t.Array() && int(pf.length) > slen {
				bs := make([]byte, slen)
				for k := range bs {
					bs[k] = vByte()
					vAssume(bs[k] >= 0x20 && bs[k] < 0x7F)
				}
				msgv.Field(i).SetString(string(bs))
			}
			continue
		}
		vSetField(msgv, gmn, i, false)
	}
	if vPlace(f, ti, msgv, gmn, reflect.Value{}) == 0 {
		return nil
	}
	return f
}

// H08e: Encode on hand-built Files (every field of one message set,
// including its strings): no object that pre-exists the call is written, and
// the bytes written for a File do not depend on which other Files (same
// message, shorter and longer strings) were encoded before.
func H08e() {
	ti, gmn, big := vParam("ti"), MesgNum(vParam("gmn")), vParam("big") == 1
	fy, fx, fz := vAllFieldsFile(ti, gmn, 2), vAllFieldsFile(ti, gmn, vConcretize(vInt(0, 3))), vAllFieldsFile(ti, gmn, vConcretize(vInt(0, 5)))
	if fy == nil || fx == nil || fz == nil {
		vReached("not-hosted")
		vReached("end")
		return
	}
	var order binary.ByteOrder = binary.LittleEndian
	if big {
		order = binary.BigEndian
	}
	vTrackShared(true)
	var y0, x, z, y1 bytes.Buffer
	e0 := Encode(&y0, fy, order)
	vAssert(vSharedWrites() == 0, "C08.frame.encode-writes-no-shared-object")
	_ = Encode(&x, fx, order)
	_ = Encode(&z, fz, order)
	// ... and one that fails part-way (a string that is not valid UTF-8)
	bad, _ := NewFile(FileTypeActivity, NewHeader(V20, true))
	bad.FileId.ProductName = "\xff\xfe"
	var sink bytes.Buffer
	_ = Encode(&sink, bad, order)
	e1 := Encode(&y1, fy, order)
	vAssert(vSharedWrites() == 0, "C08.frame.encode-writes-no-shared-object")
	vTrackShared(false)
	vAssert(e0 == nil && e1 == nil, "C08.encode.succeeds")
	vAssert(bytes.Equal(y0.Bytes(), y1.Bytes()), "C08.sequence.encode-independent-of-earlier-encodes")
	vReached("end")
}

// H09e: two concurrent Encodes of independent hand-built Files hosting the
// same message.
func H09e() {
	ti, gmn := vParam("ti"), MesgNum(vParam("gmn"))
	f1, f2 := vAllFieldsFile(ti, gmn, 2), vAllFieldsFile(ti, gmn, 1)
	if f1 == nil || f2 == nil {
		vReached("not-hosted")
		vReached("end")
		return
	}
	vTrackShared(true)
	var w1, w2 bytes.Buffer
	vPar(func() { _ = Encode(&w1, f1, binary.LittleEndian) }, func() { _ = Encode(&w2, f2, binary.BigEndian) })
	vAssert(vSharedWrites() == 0, "C09.no-shared-object-is-written")
	vTrackShared(false)
	var a1 bytes.Buffer
	_ = Encode(&a1, f1, binary.LittleEndian)
	vAssert(bytes.Equal(a1.Bytes(), w1.Bytes()), "C09.same-result-as-alone")
	vReached("end")
}

// H08f: the verdict on a field definition is a function of the definition:
// it does not depend on which other definitions any decoder validated
// before. Message gmn (parameter), arbitrary field number, size and
// (canonical) base type; the history is the same field definition validated
// for an arbitrary other message number (unknown to the profile).
func H08f() {
	g2 := MesgNum(vParam("gmn"))
	fd := fieldDef{num: vByte(), size: vByte(), btype: types.Base(vByte())}
	vAssume(vCanonTab[fd.btype])
	fd.btype = types.Base(vConcretize(int(fd.btype)))
	var d0 decoder
	r0 := d0.validateFieldDef(g2, fd) == nil
	g1 := MesgNum(vU16())
	vAssume(!knownMsgNums[g1] && g1 != MesgNumInvalid)
	var d1 decoder
	_ = d1.validateFieldDef(g1, fd)
	var d2 decoder
	r1 := d2.validateFieldDef(g2, fd) == nil
	vAssert(r0 == r1, "C08.history.definition-verdict-independent-of-history")
	vReached("end")
}

// H08g: history for state that travels with a recycled decoder rather than a
// package-level variable. Stream B has no explicit timestamp: its first time
// value is an activity's local_timestamp, then come compressed-timestamp
// records. It is decoded in a fresh state, then after a model stream A (whose
// records leave an arbitrary reference timestamp and offset behind), then
// compared.
func H08g() {
	sA := vGenStream(vKindsParam(), true)
	var body bytes.Buffer
	body.Write([]byte{0x40, 0, 0, 0, 0, 2, 0, 1, 0x00, 1, 2, 0x84})
	body.Write([]byte{0x00, 4, 1, 0})
	body.Write([]byte{0x41, 0, 0, 34, 0, 1, 5, 4, 0x86}) // activity: local_timestamp only
	body.Write([]byte{0x42, 0, 0, 20, 0, 1, 3, 1, 0x02}) // record: heart_rate only
	body.Write([]byte{0x01, vByte(), vByte(), vByte(), 0x30})
	body.Write([]byte{0x80 | 2<<5 | vByte()&0x1F, vByte()})
	body.Write([]byte{0x80 | 2<<5 | vByte()&0x1F, vByte()})
	hdr := make([]byte, 14)
	vHeader14(hdr, uint32(body.Len()))
	var out bytes.Buffer
	out.Write(hdr)
	out.Write(body.Bytes())
	fc := dyncrc16.Checksum(out.Bytes())
	out.Write([]byte{byte(fc), byte(fc >> 8)})
	B := out.Bytes()
	vResetAccumulators()
	b0, e0 := Decode(bytes.NewReader(B))
	_, _ = Decode(bytes.NewReader(sA.data))
	_, _ = DecodeChained(bytes.NewReader(sA.data))
	b1, e1 := Decode(bytes.NewReader(B))
	vAssert(e0 == nil && e1 == nil && b0 != nil && b1 != nil, "C08.sequence.decodes")
	if b0 != nil && b1 != nil {
		vSameContent(b0, b1, 3, "C08.sequence.decode-independent-of-history")
	}
	chain, ce := DecodeChained(bytes.NewReader(append(append([]byte{}, sA.data...), B...)))
	vAssert(ce == nil && len(chain) == 2, "C08.sequence.decodes")
	if ce == nil && len(chain) == 2 && b0 != nil {
		vSameContent(b0, chain[1], 3, "C08.sequence.decode-independent-of-history")
	}
	vReached("end")
}
