//go:build verif

package fit

import (
	"bytes"
	"encoding/binary"
	"reflect"
	"time"

	"github.com/tormoder/fit/dyncrc16"
	"github.com/tormoder/fit/internal/types"
)

// C05 — Encode emits a well-formed, self-describing FIT stream.
// C06 — Encode then Decode returns the values that were put in.

// vSet is what the harness put into one message field, as the little-endian
// element values the wire must carry.
type vSet struct {
	num   byte
	esize int      // element size on the wire
	elems []uint64 // element values (n elements put in)
	str   string   // for strings
	isStr bool
	total int // profile length (elements / bytes for strings)
	inval uint64
	unset bool // nothing could be stored (no value fits)
	strArray bool
}

// vSetField stores an arbitrary non-invalid value in field sindex of the
// message and returns its wire image.
func vSetField(msgv reflect.Value, gmn MesgNum, sindex int, choice bool) vSet {
	pf := getFieldBySindex(sindex, profileFieldDef(gmn))
	fv := msgv.Field(sindex)
	bt := pf.t.BaseType()
	out := vSet{num: pf.num, esize: bt.Size(), total: int(pf.length), inval: vInvalidBits(bt)}
	if gmn == MesgNumFileId && pf.num == 0 {
		out.unset = true // file_id.type is the file type, fixed by NewFile
		return out
	}
	switch pf.t.Kind() {
	case types.TimeLocal:
		// a local time: instant x in a fixed zone with an arbitrary offset of
		// up to +-14 h; the wire carries the wall-clock reading
		x := uint32(1000000000 + sindex)
		off := 3600 * (sindex%5 - 2)
		if choice {
			x = vU32()
			vAssume(x >= 100000 && x <= 0xFFFFFFFE-100000)
			if vParam("symoff") == 1 {
				off = vInt(-14*3600, 14*3600)
			} else {
				// representative zone offsets, case-split (whole hours, half
				// and quarter hours, odd seconds, extremes)
				off = vZoneOffsets[vConcretize(vInt(0, len(vZoneOffsets)-1))]
			}
		}
		fv.Set(reflect.ValueOf(decodeDateTime(x).In(time.FixedZone("VZ", off))))
		out.elems = []uint64{uint64(uint32(int64(x) + int64(off)))}
		return out
	case types.TimeUTC:
		x := uint32(1000000000 + sindex) // all-fields mode: a fixed time (each time field is symbolic in its own instance)
		if choice {
			x = vU32()
			vAssume(x >= 1 && x <= 0xFFFFFFFE)
		}
		fv.Set(reflect.ValueOf(decodeDateTime(x)))
		out.elems = []uint64{uint64(x)}
		return out
	case types.Lat:
		s := int32(1000 + sindex)
		if choice {
			s = vI32()
			vAssume(s >= -(1<<30) && s <= (1<<30)-1)
		}
		fv.Set(reflect.ValueOf(NewLatitude(s)))
		out.elems = []uint64{uint64(uint32(s))}
		return out
	case types.Lng:
		s := int32(-2000 - sindex)
		if choice {
			s = vI32()
			vAssume(s != 0x7FFFFFFF)
		}
		fv.Set(reflect.ValueOf(NewLongitude(s)))
		out.elems = []uint64{uint64(uint32(s))}
		return out
	}
	nondetElem := func() uint64 {
		var v uint64
		if !choice {
			// all-fields mode: structure is the subject, values are fixed
			// (every field is symbolic in its own instance)
			return uint64(1 + sindex%100)
		}
		switch bt.Size() {
		case 1:
			v = uint64(vByte())
		case 2:
			v = uint64(vU16())
		case 4:
			v = uint64(vU32())
		default:
			v = vU64()
		}
		return v
	}
	store := func(dst reflect.Value, v uint64) {
		switch dst.Kind() {
		case reflect.Uint8, reflect.Uint16, reflect.Uint32, reflect.Uint64:
			dst.SetUint(v)
		case reflect.Int8, reflect.Int16, reflect.Int32, reflect.Int64:
			dst.SetInt(vSext(v, bt.Size()))
		default:
			vAssert(false, "C05.harness.unexpected-kind")
		}
	}
	if bt == types.BaseString {
		if pf.t.Array() {
			// the encoder refuses arrays of strings; not in the property's domain
			out.isStr = true
			out.strArray = true
			fv.Set(reflect.ValueOf([]string{"a"}))
			return out
		}
		// up to two ASCII characters, as many as fit with the terminator
		out.isStr = true
		n := int(pf.length) - 1
		if n > 2 {
			n = 2
		}
		if n <= 0 {
			out.unset = true // only the empty (= invalid) string fits
			return out
		}
		if choice {
			n = vConcretize(vInt(1, n)) // one or two characters
		}
		bs := make([]byte, n)
		for i := range bs {
			bs[i] = 'a' + byte(i)
			if choice {
				bs[i] = vByte()
				vAssume(bs[i] >= 0x20 && bs[i] < 0x7F)
			}
		}
		out.str = string(bs)
		fv.SetString(out.str)
		return out
	}
	if pf.t.Array() {
		n := 1
		if choice {
			n = vConcretize(vInt(1, 2))
		}
		if n > int(pf.length) {
			n = int(pf.length)
		}
		sl := reflect.MakeSlice(fv.Type(), n, n)
		for i := 0; i < n; i++ {
			v := nondetElem()
			store(sl.Index(i), v)
			out.elems = append(out.elems, v)
		}
		fv.Set(sl)
		return out
	}
	v := nondetElem()
	vAssume(v != out.inval)
	store(fv, v)
	out.elems = []uint64{v}
	return out
}

var vZoneOffsets = [...]int{0, 3600, -3600, 19800, 20700, -12600, 34200, 50400, -43200, 1, -1, 4321, -86399 / 2}

type vDefField struct {
	num, size byte
	btype     types.Base
}

type vDef struct {
	gmn    MesgNum
	big    bool
	fields []vDefField
	size   int
}

type vRec struct {
	local byte
	def   *vDef
	off   int // offset of the first data byte
}

// vWalk is an independent FIT grammar walker over Encode's output. It
// returns the data records found; every structural expectation is asserted.
func vWalk(out []byte, hdrSize int) []vRec {
	vAssert(len(out) >= hdrSize+2, "C05.stream.length")
	vAssert(int(out[0]) == hdrSize, "C05.header.size")
	vAssert(out[8] == '.' && out[9] == 'F' && out[10] == 'I' && out[11] == 'T', "C05.header.magic")
	dataSize := int(uint32(out[4]) | uint32(out[5])<<8 | uint32(out[6])<<16 | uint32(out[7])<<24)
	vAssert(dataSize == len(out)-hdrSize-2, "C05.header.data-size")
	if hdrSize == 14 {
		vAssert(uint16(out[12])|uint16(out[13])<<8 == dyncrc16.Checksum(out[:12]), "C05.header.crc")
	}
	end := len(out) - 2
	vAssert(uint16(out[end])|uint16(out[end+1])<<8 == dyncrc16.Checksum(out[:end]), "C05.file.crc")
	var defs [16]*vDef
	var recs []vRec
	pos := hdrSize
	for pos < end {
		h := out[pos]
		pos++
		vAssert(h&0x80 == 0 && h&0x20 == 0, "C05.record.plain-header")
		local := h & 0x0F
		if h&0x40 != 0 {
			vAssert(pos+5 <= end, "C05.def.truncated")
			d := &vDef{big: out[pos+1] == 1}
			vAssert(out[pos+1] <= 1, "C05.def.arch")
			if d.big {
				d.gmn = MesgNum(uint16(out[pos+2])<<8 | uint16(out[pos+3]))
			} else {
				d.gmn = MesgNum(uint16(out[pos+2]) | uint16(out[pos+3])<<8)
			}
			n := int(out[pos+4])
			pos += 5
			vAssert(pos+3*n <= end, "C05.def.truncated")
			for i := 0; i < n; i++ {
				f := vDefField{out[pos], out[pos+1], types.Base(out[pos+2])}
				pos += 3
				vAssert(vCanonicalBase(f.btype), "C05.def.base-type")
				vAssert(int(f.size)%f.btype.Size() == 0 && f.size != 0, "C05.def.size-multiple")
				d.fields = append(d.fields, f)
				d.size += int(f.size)
			}
			vAssert(d.size <= 255, "C05.def.record-fits")
			defs[local] = d
			continue
		}
		d := defs[local]
		vAssert(d != nil, "C05.data.defined-before")
		if d == nil {
			return recs
		}
		vAssert(pos+d.size <= end, "C05.data.fits")
		recs = append(recs, vRec{local, d, pos})
		pos += d.size
	}
	vAssert(pos == end, "C05.stream.exact")
	return recs
}

// vCheckWire asserts that the data record carries the values put in.
func vCheckWire(out []byte, r vRec, s vSet) {
	if s.unset {
		return
	}
	off := r.off
	for _, f := range r.def.fields {
		if f.num != s.num {
			off += int(f.size)
			continue
		}
		if s.isStr {
			vAssert(int(f.size) == s.total && f.btype == types.BaseString, "C05.wire.string-size")
			ok := true
			for i := 0; i < int(f.size); i++ {
				var want byte
				if i < len(s.str) {
					want = s.str[i]
				}
				if out[off+i] != want {
					ok = false
				}
			}
			vAssert(ok, "C05.wire.string")
			return
		}
		vAssert(int(f.size) == s.esize*s.total, "C05.wire.size")
		for i := 0; i < s.total; i++ {
			want := s.inval
			if i < len(s.elems) {
				want = s.elems[i]
			}
			if s.esize < 8 {
				want &= 1<<uint(8*s.esize) - 1
			}
			vAssert(vWire(out[off+i*s.esize:], s.esize, r.def.big) == want, "C05.wire.value")
		}
		return
	}
	vAssert(false, "C05.wire.field-present")
}

// vPlace puts the message into its slot of the container (or of the File for
// the common messages) the way a user of the public API would.
func vPlace(f *File, ti int, msgv reflect.Value, gmn MesgNum, second reflect.Value) int {
	switch gmn {
	case MesgNumFileId:
		t := f.FileId.Type
		f.FileId = msgv.Interface().(FileIdMsg)
		f.FileId.Type = t
		return 1
	case MesgNumFileCreator:
		f.FileCreator = msgv.Addr().Interface().(*FileCreatorMsg)
		return 1
	case MesgNumTimestampCorrelation:
		f.TimestampCorrelation = msgv.Addr().Interface().(*TimestampCorrelationMsg)
		return 1
	}
	cont := vContainer(f, ti)
	mt := msgv.Type()
	for i := 0; i < cont.NumField(); i++ {
		fld := cont.Field(i)
		ft := fld.Type()
		if ft.Kind() == reflect.Ptr && ft.Elem() == mt {
			fld.Set(msgv.Addr())
			return 1
		}
		if ft.Kind() == reflect.Slice && ft.Elem().Elem() == mt {
			n := 1
			if second.IsValid() {
				n = 2
			}
			sl := reflect.MakeSlice(ft, n, n)
			sl.Index(0).Set(msgv.Addr())
			if n == 2 {
				sl.Index(1).Set(second.Addr())
			}
			fld.Set(sl)
			return n
		}
	}
	return 0
}

// H05: file type ti, message gmn hosted by it, struct field fi set (and, with
// two=1 and a slice slot, a second message with field fj set instead — the
// union-definition case). Byte order and header CRC by parameter.
func H05() {
	ti, gmn := vParam("ti"), MesgNum(vParam("gmn"))
	fi, fj, two := vParam("fi"), vParam("fj"), vParam("two") == 1
	big, crc := vParam("big") == 1, vParam("crc") == 1
	f, err := NewFile(FileType(vFileTypes[ti]), NewHeader(V20, crc))
	vAssert(err == nil, "C05.harness.newfile")
	msgv := getMesgAllInvalid(gmn)
	var sets []vSet
	var second reflect.Value
	all := fi == -1
	if fi == -2 {
		// the message as its constructor returns it: present, nothing set
	} else if all {
		for i := 0; i < msgv.NumField(); i++ {
			sets = append(sets, vSetField(msgv, gmn, i, false))
		}
	} else {
		sets = append(sets, vSetField(msgv, gmn, fi, true))
		if fj >= 0 && !two {
			sets = append(sets, vSetField(msgv, gmn, fj, true))
		}
	}
	var sets2 []vSet
	if two {
		second = getMesgAllInvalid(gmn)
		sets2 = append(sets2, vSetField(second, gmn, fj, true))
	}
	placed := vPlace(f, ti, msgv, gmn, second)
	if placed == 0 {
		vReached("not-hosted")
		vReached("end")
		return
	}
	orig := reflect.New(msgv.Type()).Elem()
	orig.Set(msgv)
	var w bytes.Buffer
	var order binary.ByteOrder = binary.LittleEndian
	if big {
		order = binary.BigEndian
	}
	if vParam("hist") == 1 {
		// call history: an Encode that fails after it has staged records (a
		// string that is not valid UTF-8) must leave nothing behind
		g, _ := NewFile(FileTypeActivity, NewHeader(V20, true))
		g.FileId.ProductName = "\xff\xfe"
		var sink bytes.Buffer
		vAssert(Encode(&sink, g, order) != nil, "C05.harness.history-encode-fails")
	}
	err = Encode(&w, f, order)
	hasStrArray := false
	for _, s := range append(sets, sets2...) {
		if s.strArray {
			hasStrArray = true
		}
	}
	if hasStrArray {
		// arrays of strings cannot be encoded (documented limitation): an error, not a panic
		vAssert(err != nil, "C05.string-array-rejected")
		vReached("string-array")
		vReached("end")
		return
	}
	vAssert(err == nil, "C05.encode.succeeds")
	if err != nil {
		vReached("end")
		return
	}
	out := w.Bytes()
	hdrSize := 12
	if crc {
		hdrSize = 14
	}
	recs := vWalk(out, hdrSize)
	// the File's bookkeeping equals what was written
	vAssert(int(f.Header.DataSize) == len(out)-hdrSize-2, "C05.file.header-datasize-updated")
	end := len(out) - 2
	vAssert(f.CRC == uint16(out[end])|uint16(out[end+1])<<8, "C05.file.crc-updated")
	if crc {
		vAssert(f.Header.CRC == uint16(out[12])|uint16(out[13])<<8, "C05.file.header-crc-updated")
	}
	// the output is accepted by the integrity check (C04's first clause)
	vAssert(CheckIntegrity(bytes.NewReader(out), false) == nil, "C04.encode-output-passes-checkintegrity")
	// find our message's records
	var mine []vRec
	for _, r := range recs {
		if r.def.gmn == gmn {
			mine = append(mine, r)
		}
		vAssert(r.def.big == big, "C05.def.byte-order")
	}
	want := placed
	vAssert(len(mine) == want, "C05.records.count")
	if len(mine) >= 1 {
		for _, s := range sets {
			vCheckWire(out, mine[0], s)
		}
	}
	if placed == 2 && len(mine) == 2 {
		for _, s := range sets2 {
			vCheckWire(out, mine[1], s)
		}
	}
	vReached("encoded")

	// ---- C06: decoding the bytes returns what was put in
	g, derr := Decode(bytes.NewReader(out))
	vAssert(derr == nil && g != nil, "C06.decode.succeeds")
	if derr != nil || g == nil {
		vReached("end")
		return
	}
	vAssert(g.Type() == f.Type(), "C06.file-type")
	var got reflect.Value
	switch gmn {
	case MesgNumFileId:
		got = reflect.ValueOf(g.FileId)
		// the harness fixes type and manufacturer of the original file_id
		orig = reflect.ValueOf(f.FileId)
	case MesgNumFileCreator:
		vAssert(g.FileCreator != nil, "C06.message-count")
		if g.FileCreator != nil {
			got = reflect.ValueOf(*g.FileCreator)
		}
	case MesgNumTimestampCorrelation:
		vAssert(g.TimestampCorrelation != nil, "C06.message-count")
		if g.TimestampCorrelation != nil {
			got = reflect.ValueOf(*g.TimestampCorrelation)
		}
	default:
		gc := vContainer(g, ti)
		mt := msgv.Type()
		for i := 0; i < gc.NumField(); i++ {
			fld := gc.Field(i)
			ft := fld.Type()
			if ft.Kind() == reflect.Ptr && ft.Elem() == mt {
				vAssert(!fld.IsNil(), "C06.message-count")
				if !fld.IsNil() {
					got = fld.Elem()
				}
			} else if ft.Kind() == reflect.Slice && ft.Elem().Elem() == mt {
				vAssert(fld.Len() == want, "C06.message-count")
				if fld.Len() >= 1 {
					got = fld.Index(0).Elem()
				}
			} else if ft.Kind() == reflect.Slice {
				vAssert(fld.Len() == 0, "C06.no-other-messages")
			} else {
				vAssert(fld.IsNil(), "C06.no-other-messages")
			}
		}
	}
	if got.IsValid() {
		vSameDecoded(gmn, got, orig, vComponentDests(msgv.Type().Name()))
	}
	vReached("roundtrip")
	vReached("end")
}

// vSameDecoded compares a decoded message with the original field by field:
// arrays up to trailing invalid padding, times by instant, everything else by
// ==; component destinations are skipped.
func vSameDecoded(gmn MesgNum, got, orig reflect.Value, skip []string) {
	for i := 0; i < orig.NumField(); i++ {
		name := vFieldName(orig.Interface(), i)
		sk := false
		for _, s := range skip {
			if s == name {
				sk = true
			}
		}
		if sk {
			continue
		}
		a, b := got.Field(i), orig.Field(i)
		switch a.Kind() {
		case reflect.Slice:
			ok := a.Len() >= b.Len()
			if ok {
				for j := 0; j < b.Len(); j++ {
					if a.Index(j).Interface() != b.Index(j).Interface() {
						ok = false
					}
				}
			}
			vAssert(ok, "C06.field.array-prefix")
			// what follows the values put in is padding: the element type's invalid value
			if ok && a.Len() > b.Len() {
				bt := getFieldBySindex(i, profileFieldDef(gmn)).t.BaseType()
				inv := vInvalidBits(bt)
				pad := true
				for j := b.Len(); j < a.Len(); j++ {
					switch e := a.Index(j); e.Kind() {
					case reflect.Uint8, reflect.Uint16, reflect.Uint32, reflect.Uint64:
						pad = pad && e.Uint() == inv
					case reflect.Int8, reflect.Int16, reflect.Int32, reflect.Int64:
						pad = pad && e.Int() == vSext(inv, bt.Size())
					}
				}
				vAssert(pad, "C06.field.array-rest-is-invalid-padding")
			}
		case reflect.Struct:
			if ta, isT := a.Interface().(time.Time); isT {
				tb := b.Interface().(time.Time)
				if pf := getFieldBySindex(i, profileFieldDef(gmn)); pf.t.Kind() == types.TimeLocal {
					_, oa := ta.Zone()
					_, ob := tb.Zone()
					vAssert(ta.Unix()+int64(oa) == tb.Unix()+int64(ob), "C06.field.localtime-wallclock")
				} else {
					vAssert(ta.Equal(tb), "C06.field.time")
				}
			} else {
				vAssert(a.Interface() == b.Interface(), "C06.field.coordinate")
			}
		default:
			vAssert(a.Interface() == b.Interface(), "C06.field.value")
		}
	}
}

// vCheckUnset asserts that every field of the record's definition that the
// message did not set carries the invalid value (strings: empty).
func vCheckUnset(out []byte, r vRec, sets []vSet) {
	off := r.off
	for _, f := range r.def.fields {
		isSet := false
		for _, s := range sets {
			if s.num == f.num && !s.unset {
				isSet = true
			}
		}
		if !isSet {
			es := f.btype.Size()
			inv := vInvalidBits(f.btype)
			if pf, ok := getField(r.def.gmn, f.num); ok && (pf.t.Kind() == types.TimeUTC || pf.t.Kind() == types.TimeLocal) {
				// the library's invalid time is the FIT epoch itself: an
				// unset time field is the value 0 on the wire
				inv = 0
			}
			if es < 8 {
				inv &= 1<<uint(8*es) - 1
			}
			ok := true
			if f.btype == types.BaseString {
				ok = out[off] == 0
			} else {
				for i := 0; i+es <= int(f.size); i += es {
					if vWire(out[off+i:], es, r.def.big) != inv {
						ok = false
					}
				}
			}
			vAssert(ok, "C05.wire.unset-field-invalid")
		}
		off += int(f.size)
	}
}

// H05m: several messages in two slice slots of one container (container
// field indexes sa < sb): slot A holds three messages (the first two set
// struct field fi, the third sets fj instead: union definition with a field
// the last message lacks), slot B holds one message with field fk set.
func H05m() {
	ti, sa, sb := vParam("ti"), vParam("sa"), vParam("sb")
	big, crc := vParam("big") == 1, vParam("crc") == 1
	f, err := NewFile(FileType(vFileTypes[ti]), NewHeader(V20, crc))
	vAssert(err == nil, "C05.harness.newfile")
	cont := vContainer(f, ti)
	fa, fb := cont.Field(sa), cont.Field(sb)
	gA := getGlobalMesgNum(fa.Type().Elem().Elem())
	gB := getGlobalMesgNum(fb.Type().Elem().Elem())
	nfA := getMesgAllInvalid(gA).NumField()
	nfB := getMesgAllInvalid(gB).NumField()
	fi, fj, fk := vParam("fi")%nfA, vParam("fj")%nfA, vParam("fk")%nfB
	var msgsA [3]reflect.Value
	var setsA [3][]vSet
	sl := reflect.MakeSlice(fa.Type(), 3, 3)
	for i := 0; i < 3; i++ {
		msgsA[i] = getMesgAllInvalid(gA)
		idx := fi
		if i == 2 {
			idx = fj
		}
		setsA[i] = []vSet{vSetField(msgsA[i], gA, idx, true)}
		sl.Index(i).Set(msgsA[i].Addr())
	}
	fa.Set(sl)
	msgB := getMesgAllInvalid(gB)
	setsB := []vSet{vSetField(msgB, gB, fk, true)}
	slb := reflect.MakeSlice(fb.Type(), 1, 1)
	slb.Index(0).Set(msgB.Addr())
	fb.Set(slb)
	for _, ss := range [][]vSet{setsA[0], setsA[1], setsA[2], setsB} {
		for _, s := range ss {
			if s.strArray {
				vReached("string-array")
				vReached("end")
				return
			}
		}
	}
	var w bytes.Buffer
	var order binary.ByteOrder = binary.LittleEndian
	if big {
		order = binary.BigEndian
	}
	err = Encode(&w, f, order)
	vAssert(err == nil, "C05.encode.succeeds")
	if err != nil {
		vReached("end")
		return
	}
	out := w.Bytes()
	hdrSize := 12
	if crc {
		hdrSize = 14
	}
	recs := vWalk(out, hdrSize)
	var ra, rb []vRec
	for _, r := range recs {
		if r.def.gmn == gA {
			ra = append(ra, r)
		} else if r.def.gmn == gB {
			rb = append(rb, r)
		} else {
			vAssert(r.def.gmn == MesgNumFileId, "C05.multi.no-other-records")
		}
	}
	if gA == gB {
		vAssert(len(ra) == 4, "C05.multi.record-counts")
	} else {
		vAssert(len(ra) == 3 && len(rb) == 1, "C05.multi.record-counts")
		if len(ra) == 3 && len(rb) == 1 {
			for i := 0; i < 3; i++ {
				for _, s := range setsA[i] {
					vCheckWire(out, ra[i], s)
				}
				vCheckUnset(out, ra[i], setsA[i])
			}
			for _, s := range setsB {
				vCheckWire(out, rb[0], s)
			}
			vCheckUnset(out, rb[0], setsB)
		}
	}
	vAssert(CheckIntegrity(bytes.NewReader(out), false) == nil, "C04.encode-output-passes-checkintegrity")
	vReached("encoded-multi")
	// round trip
	g, derr := Decode(bytes.NewReader(out))
	vAssert(derr == nil && g != nil, "C06.decode.succeeds")
	if derr == nil && g != nil && gA != gB {
		gc := vContainer(g, ti)
		ga, gb := gc.Field(sa), gc.Field(sb)
		vAssert(ga.Len() == 3 && gb.Len() == 1, "C06.message-count")
		if ga.Len() == 3 && gb.Len() == 1 {
			for i := 0; i < 3; i++ {
				vSameDecoded(gA, ga.Index(i).Elem(), msgsA[i], vComponentDests(msgsA[i].Type().Name()))
			}
			vSameDecoded(gB, gb.Index(0).Elem(), msgB, vComponentDests(msgB.Type().Name()))
		}
	}
	vReached("roundtrip-multi")
	vReached("end")
}
