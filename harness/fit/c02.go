//go:build verif && go1.18

package fit

import (
	"encoding/binary"
	"reflect"
	"time"

	"github.com/tormoder/fit/internal/types"
)

// C02 — decoded field values equal the values carried on the wire.

func vCanonicalBase(b types.Base) bool {
	switch b {
	case types.BaseEnum, types.BaseSint8, types.BaseUint8, types.BaseSint16, types.BaseUint16, types.BaseSint32,
		types.BaseUint32, types.BaseString, types.BaseFloat32, types.BaseFloat64, types.BaseUint8z, types.BaseUint16z,
		types.BaseUint32z, types.BaseByte, types.BaseSint64, types.BaseUint64, types.BaseUint64z:
		return true
	}
	return false
}

var vCanonTab = func() (t [256]bool) {
	for i := 0; i < 256; i++ {
		t[i] = vCanonicalBase(types.Base(i))
	}
	return
}()

func vIsFloat(b types.Base) bool { return b == types.BaseFloat32 || b == types.BaseFloat64 }

func vIsSigned(b types.Base) bool {
	return b == types.BaseSint8 || b == types.BaseSint16 || b == types.BaseSint32 || b == types.BaseSint64
}

// vCompat is the property's "definition compatible with the profile": inside
// it the wire bytes denote one unambiguous value of the profile field.
func vCompat(fd fieldDef, pf *field) bool {
	if !vCanonicalBase(fd.btype) {
		return false
	}
	pt := pf.t.BaseType()
	dsz, psz := fd.btype.Size(), pt.Size()
	if pt == types.BaseString {
		return fd.btype == types.BaseString
	}
	if fd.btype == types.BaseString {
		return false
	}
	if pf.t.Array() {
		return fd.btype == pt && int(fd.size)%dsz == 0 && int(fd.size) >= dsz // at least one element
	}
	if int(fd.size) != dsz || dsz > psz {
		return false
	}
	if fd.btype == pt {
		return true
	}
	if vIsFloat(fd.btype) || vIsFloat(pt) {
		return false
	}
	return vIsSigned(fd.btype) == vIsSigned(pt)
}

// vWire reads one element of n bytes in the given order, zero-extended.
func vWire(p []byte, n int, big bool) uint64 {
	var u uint64
	for i := 0; i < n; i++ {
		if big {
			u = u<<8 | uint64(p[i])
		} else {
			u |= uint64(p[i]) << (8 * uint(i))
		}
	}
	return u
}

func vSext(u uint64, n int) int64 {
	sh := uint(64 - 8*n)
	return int64(u<<sh) >> sh
}

// H02a: single known field, differential against the reference decoder.
func H02a() {
	gmn := MesgNum(vParam("gmn"))
	allstr := vParam("allstr") == 1
	var d decoder
	fd := fieldDef{num: vByte(), size: vByte(), btype: types.Base(vByte())}
	pf, found := getField(gmn, fd.num)
	if !found {
		vReached("end")
		return
	}
	// Only compatible definitions are compared (C01 owns the rest). The
	// guard is applied before the case split so that the split enumerates
	// compatible (base type, size) pairs only.
	vAssume(vCanonTab[fd.btype])
	fd.btype = types.Base(vConcretize(int(fd.btype)))
	pt0 := pf.t.BaseType()
	isStr := fd.btype == types.BaseString
	var data [255]byte
	switch {
	case pt0 == types.BaseString || isStr:
		if !(pt0 == types.BaseString && isStr) {
			vReached("end")
			return
		}
		if !allstr {
			vAssume(vStrSizes[fd.size])
		}
		if pf.t.Array() {
			vStringArrayData(&fd, data[:], allstr)
		} else {
			fd.size = byte(vConcretize(int(fd.size)))
			vBytes(data[:fd.size])
		}
	case pf.t.Array():
		if fd.btype != pt0 {
			vReached("end")
			return
		}
		vAssume(int(fd.size)%fd.btype.Size() == 0 && fd.size != 0)
		fd.size = byte(vConcretize(int(fd.size)))
		vBytes(data[:fd.size])
	default:
		vAssume(int(fd.size) == fd.btype.Size())
		fd.size = byte(fd.btype.Size())
		vBytes(data[:fd.size])
	}
	if !vCompat(fd, pf) {
		vReached("end")
		return
	}
	vAssert(d.validateFieldDef(gmn, fd) == nil, "C02.compatible-definition-accepted")
	dsz := fd.btype.Size()
	big := false
	var arch binary.ByteOrder = vNoOrder{}
	if dsz > 1 || pf.t.Kind() != types.NativeFit {
		big = vBool()
		arch = vArch(big)
	}
	vFeed(&d, data[:])
	d.bytes.limit = int(fd.size)
	d.defmsgs[0] = &defmsg{arch: arch, globalMsgNum: gmn, fields: 1, fieldDefs: []fieldDef{fd}}
	msg, err := d.parseDataMessage(0, false)
	vAssert(err == nil && msg.IsValid(), "C02.compatible-record-decodes")
	if err != nil || !msg.IsValid() {
		vReached("end")
		return
	}
	// (Two defects this comparison found on the pinned tree are repaired in
	// /repo: see the "fixed" entries for C02 in known_findings.json.)
	n := int(fd.size)
	vCheckValue(msg, pf, fd, data[:], big)
	// every field that was not present holds its type's invalid value
	inv := getMesgAllInvalid(gmn)
	vSameExcept(msg.Interface(), inv.Interface(), "C02.absent-fields-invalid", vFieldName(msg.Interface(), pf.sindex))
	vAssert(d.bytes.n == n, "C02.consumed")
	vReached("compared")
	// A second record under the same live definition that carries the
	// invalid value: it must decode to the invalid value whatever the
	// first record held (nothing of a record survives into the next).
	var data2 [255]byte
	vPutInvalid(data2[:n], fd.btype, big)
	vFeed(&d, data2[:])
	d.bytes.limit = n
	msg2, err2 := d.parseDataMessage(0, false)
	vAssert(err2 == nil && msg2.IsValid(), "C02.second-record-decodes")
	if err2 == nil && msg2.IsValid() {
		vCheckValue(msg2, pf, fd, data2[:], big)
		vSameExcept(msg2.Interface(), inv.Interface(), "C02.second-record.absent-fields-invalid", vFieldName(msg2.Interface(), pf.sindex))
		vReached("compared-second")
	}
	vReached("end")
}

// vPutInvalid fills p with the invalid value of base type b, element by
// element, in the given byte order (strings: NUL bytes).
func vPutInvalid(p []byte, b types.Base, big bool) {
	sz := b.Size()
	if b == types.BaseString || sz <= 0 {
		return
	}
	inv := vInvalidBits(b)
	for o := 0; o+sz <= len(p); o += sz {
		for k := 0; k < sz; k++ {
			sh := uint(8 * k)
			if big {
				sh = uint(8 * (sz - 1 - k))
			}
			p[o+k] = byte(inv >> sh)
		}
	}
}

// vCheckValue compares field pf of the decoded message with the value the
// wire bytes data[:fd.size] denote under definition fd and the byte order.
func vCheckValue(msg reflect.Value, pf *field, fd fieldDef, data []byte, big bool) {
	dsz := fd.btype.Size()
	isStr := fd.btype == types.BaseString
	fv := msg.Field(pf.sindex)
	n := int(fd.size)
	switch pf.t.Kind() {
	case types.TimeUTC:
		x := uint32(vWire(data[:], dsz, big))
		got := fv.Interface().(time.Time)
		if x == 0xFFFFFFFF {
			vAssert(IsBaseTime(got), "C02.value.time")
		} else {
			vAssert(got.Equal(decodeDateTime(x)), "C02.value.time")
		}
	case types.TimeLocal:
		x := uint32(vWire(data[:], dsz, big))
		got := fv.Interface().(time.Time)
		if x == 0xFFFFFFFF {
			vAssert(IsBaseTime(got), "C02.value.localtime")
		} else {
			_, off := got.Zone()
			vAssert(got.Unix()+int64(off) == timeBase.Unix()+int64(x), "C02.value.localtime")
		}
	case types.Lat:
		v := int32(vSext(vWire(data[:], dsz, big), dsz))
		vAssert(fv.Interface().(Latitude) == NewLatitude(v), "C02.value.lat")
	case types.Lng:
		v := int32(vSext(vWire(data[:], dsz, big), dsz))
		vAssert(fv.Interface().(Longitude) == NewLongitude(v), "C02.value.lng")
	case types.NativeFit:
		switch {
		case isStr && !pf.t.Array():
			j := 0
			for j < n && data[j] != 0 {
				j++
			}
			vAssert(fv.String() == string(data[:j]), "C02.value.string")
		case isStr && pf.t.Array():
			// reference splitter: NUL-terminated strings, an empty one ends the list
			var want []string
			j := 0
			for j < n {
				k := j
				for k < n && data[k] != 0 {
					k++
				}
				if k == j {
					break
				}
				want = append(want, string(data[j:k]))
				j = k + 1
			}
			ok := fv.Len() == len(want)
			if ok {
				for i := range want {
					if fv.Index(i).String() != want[i] {
						ok = false
					}
				}
			}
			vAssert(ok, "C02.value.string-array")
		case pf.t.Array():
			cnt := n / dsz
			ok := fv.Len() == cnt
			if ok {
				for i := 0; i < cnt; i++ {
					u := vWire(data[i*dsz:], dsz, big)
					ev := fv.Index(i)
					switch ev.Kind() {
					case reflect.Uint8, reflect.Uint16, reflect.Uint32, reflect.Uint64:
						vAssert(ev.Uint() == u, "C02.value.array-element")
					case reflect.Int8, reflect.Int16, reflect.Int32, reflect.Int64:
						vAssert(ev.Int() == vSext(u, dsz), "C02.value.array-element")
					default:
						vAssert(false, "C02.value.array-element")
					}
				}
			}
			vAssert(ok, "C02.value.array-length")
		default:
			u := vWire(data[:], dsz, big)
			switch fv.Kind() {
			case reflect.Uint8, reflect.Uint16, reflect.Uint32, reflect.Uint64:
				vAssert(fv.Uint() == u, "C02.value.scalar")
			case reflect.Int8, reflect.Int16, reflect.Int32, reflect.Int64:
				vAssert(fv.Int() == vSext(u, dsz), "C02.value.scalar")
			default:
				vAssert(false, "C02.value.scalar")
			}
		}
	}
}

// H02b: two-field definitions. One field (the "disturber") is taken from a
// menu that exercises every way the record parser treats a field — a time or
// coordinate field at any compatible width, an unlisted field, a developer
// field, a string, an array — the other is any known scalar field of the
// message at its profile type. Both orders. Both values are compared with the
// reference decoder and every other field must hold its invalid value:
// skipping or widening one field must not disturb its neighbour.
func H02b() {
	gmn := MesgNum(vParam("gmn"))
	var d decoder
	menu := vParam("menu")
	first := vParam("first") == 1 // disturber first or second
	var data [64]byte
	var fdA fieldDef
	var pfA *field
	devSize := 0
	switch menu {
	case 0: // time / coordinate field, any compatible width
		fdA = fieldDef{num: vByte(), size: vByte(), btype: types.Base(vByte())}
		pf, found := getField(gmn, fdA.num)
		if !found || pf.t.Kind() == types.NativeFit {
			vReached("end")
			return
		}
		pfA = pf
		vAssume(vCanonTab[fdA.btype])
		fdA.btype = types.Base(vConcretize(int(fdA.btype)))
		vAssume(int(fdA.size) == fdA.btype.Size())
		fdA.size = byte(fdA.btype.Size())
		if !vCompat(fdA, pf) {
			vReached("end")
			return
		}
	case 1: // unlisted field, 1..4 bytes
		fdA = fieldDef{num: vByte(), size: byte(vConcretize(vInt(1, 4))), btype: types.BaseByte}
		if _, found := getField(gmn, fdA.num); found {
			vReached("end")
			return
		}
	case 2: // developer field of 1..4 bytes (follows the regular fields on the wire)
		devSize = vConcretize(vInt(1, 4))
	case 3: // string field, 1..3 bytes
		fdA = fieldDef{num: vByte(), size: byte(vConcretize(vInt(1, 3))), btype: types.BaseString}
		pf, found := getField(gmn, fdA.num)
		if !found || pf.t.BaseType() != types.BaseString || pf.t.Array() {
			vReached("end")
			return
		}
		pfA = pf
	default: // array field, one or two elements
		fdA = fieldDef{num: vByte(), size: vByte(), btype: types.Base(vByte())}
		pf, found := getField(gmn, fdA.num)
		if !found || !pf.t.Array() || pf.t.BaseType() == types.BaseString {
			vReached("end")
			return
		}
		pfA = pf
		fdA.btype = pf.t.BaseType()
		k := vConcretize(vInt(1, 2))
		fdA.size = byte(k * fdA.btype.Size())
	}
	// the neighbour: a known scalar native field at its profile type
	fdB := fieldDef{num: vByte()}
	pfB, found := getField(gmn, fdB.num)
	if !found || pfB.t.Array() || pfB.t.BaseType() == types.BaseString || pfB.t.Kind() != types.NativeFit {
		vReached("end")
		return
	}
	if pfA != nil && pfA == pfB {
		vReached("end")
		return
	}
	if mb := vParam("maxb"); mb > 0 && pfB.sindex >= mb {
		// quick tier: neighbours among the first struct fields only
		vReached("end")
		return
	}
	fdB.btype = pfB.t.BaseType()
	fdB.size = byte(fdB.btype.Size())
	big := vBool()
	var defs []fieldDef
	offA, offB := 0, 0
	hasA := menu != 2
	if hasA && first {
		defs = []fieldDef{fdA, fdB}
		offB = int(fdA.size)
	} else if hasA {
		defs = []fieldDef{fdB, fdA}
		offA = int(fdB.size)
	} else {
		defs = []fieldDef{fdB}
	}
	total := int(fdB.size) + devSize
	if hasA {
		total += int(fdA.size)
	}
	vBytes(data[:total])
	for _, fd := range defs {
		vAssert(d.validateFieldDef(gmn, fd) == nil, "C02.multi.definition-accepted")
	}
	vFeed(&d, data[:])
	d.bytes.limit = total
	dm := &defmsg{arch: vArch(big), globalMsgNum: gmn, fields: byte(len(defs)), fieldDefs: defs}
	if devSize > 0 {
		dm.devDataFieldDescs = []devDataFieldDesc{{fieldNum: 0, size: byte(devSize), devDataIndex: 0}}
	}
	d.defmsgs[0] = dm
	msg, err := d.parseDataMessage(0, false)
	vAssert(err == nil && msg.IsValid(), "C02.multi.record-decodes")
	if err != nil || !msg.IsValid() {
		vReached("end")
		return
	}
	vCheckValue(msg, pfB, fdB, data[offB:], big)
	except := []string{vFieldName(msg.Interface(), pfB.sindex)}
	if pfA != nil {
		vCheckValue(msg, pfA, fdA, data[offA:], big)
		except = append(except, vFieldName(msg.Interface(), pfA.sindex))
	}
	vSameExcept(msg.Interface(), getMesgAllInvalid(gmn).Interface(), "C02.multi.absent-fields-invalid", except...)
	vAssert(d.bytes.n == total, "C02.multi.consumed")
	vReached("compared-multi")
	vReached("end")
}

// H02d: an unknown message whose definition carries regular fields and a
// developer field is skipped without disturbing the record that follows.
// Unknown message number, field sizes (0..1 regular field of 1..3 bytes, one
// developer field of 1..3 bytes) and the following record's heart rate are
// arbitrary; through the real record loop, with and without the counting
// options.
func H02d() {
	var d decoder
	f, _ := NewFile(FileTypeActivity, NewHeader(V20, true))
	d.file = f
	if vBool() {
		vCountingOptions(&d)
		vMakeMap(&d.unknownFields)
		vMakeMap(&d.unknownMessages)
	}
	u := MesgNum(0xFF00 | uint16(vByte()&0x7F)) // numbers the profile does not know
	nf := vConcretize(vInt(0, 1))
	fsz := vConcretize(vInt(1, 3))
	dsz := vConcretize(vInt(1, 3))
	big := vBool()
	s := []byte{0x62, 0, 0, byte(u), byte(u >> 8), byte(nf)}
	if big {
		s[2], s[3], s[4] = 1, byte(u>>8), byte(u)
	}
	for i := 0; i < nf; i++ {
		s = append(s, byte(7+i), byte(fsz), 0x0D)
	}
	s = append(s, 1, 0, byte(dsz), 0)
	s = append(s, 0x41, 0, 0, 20, 0, 1, 3, 1, 0x02) // local 1: record, heart_rate
	s = append(s, 0x02)                             // the unknown message's record
	for i := 0; i < nf*fsz; i++ {
		s = append(s, vByte())
	}
	for i := 0; i < dsz; i++ {
		s = append(s, 0xE0|byte(i)) // developer bytes: concrete, so that a mis-framed parse stays concrete
	}
	hr := vByte()
	s = append(s, 0x01, hr)
	var buf [64]byte
	copy(buf[:], s)
	vFeed(&d, buf[:])
	d.bytes.limit = len(s)
	err := d.decodeFileData()
	vAssert(err == nil && d.bytes.n == len(s), "C02.skip.unknown-message-with-developer-field-is-skipped-exactly")
	act, _ := f.Activity()
	vAssert(len(act.Records) == 1 && act.Records[0].HeartRate == hr, "C02.skip.following-record-undisturbed")
	vReached("end")
}
