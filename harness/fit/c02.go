//go:build verif

package fit

import (
	"encoding/binary"
	"reflect"
	"time"

	"github.com/tormoder/fit/internal/types"
)

// C02 — decoded field values equal the values carried on the wire.

func vCanonicalBase(b types.Base) bool {
	switch b {
	case types.BaseEnum, types.BaseSint8, types.BaseUint8, types.BaseSint16, types.BaseUint16, types.BaseSint32,
		types.BaseUint32, types.BaseString, types.BaseFloat32, types.BaseFloat64, types.BaseUint8z, types.BaseUint16z,
		types.BaseUint32z, types.BaseByte, types.BaseSint64, types.BaseUint64, types.BaseUint64z:
		return true
	}
	return false
}

var vCanonTab = func() (t [256]bool) {
	for i := 0; i < 256; i++ {
		t[i] = vCanonicalBase(types.Base(i))
	}
	return
}()

func vIsFloat(b types.Base) bool { return b == types.BaseFloat32 || b == types.BaseFloat64 }

func vIsSigned(b types.Base) bool {
	return b == types.BaseSint8 || b == types.BaseSint16 || b == types.BaseSint32 || b == types.BaseSint64
}

// vCompat is the property's "definition compatible with the profile": inside
// it the wire bytes denote one unambiguous value of the profile field.
func vCompat(fd fieldDef, pf *field) bool {
	if !vCanonicalBase(fd.btype) {
		return false
	}
	pt := pf.t.BaseType()
	dsz, psz := fd.btype.Size(), pt.Size()
	if pt == types.BaseString {
		return fd.btype == types.BaseString
	}
	if fd.btype == types.BaseString {
		return false
	}
	if pf.t.Array() {
		return fd.btype == pt && int(fd.size)%dsz == 0 && int(fd.size) >= dsz // at least one element
	}
	if int(fd.size) != dsz || dsz > psz {
		return false
	}
	if fd.btype == pt {
		return true
	}
	if vIsFloat(fd.btype) || vIsFloat(pt) {
		return false
	}
	return vIsSigned(fd.btype) == vIsSigned(pt)
}

// vWire reads one element of n bytes in the given order, zero-extended.
func vWire(p []byte, n int, big bool) uint64 {
	var u uint64
	for i := 0; i < n; i++ {
		if big {
			u = u<<8 | uint64(p[i])
		} else {
			u |= uint64(p[i]) << (8 * uint(i))
		}
	}
	return u
}

func vSext(u uint64, n int) int64 {
	sh := uint(64 - 8*n)
	return int64(u<<sh) >> sh
}

// H02a: single known field, differential against the reference decoder.
func H02a() {
	gmn := MesgNum(vParam("gmn"))
	allstr := vParam("allstr") == 1
	var d decoder
	fd := fieldDef{num: vByte(), size: vByte(), btype: types.Base(vByte())}
	pf, found := getField(gmn, fd.num)
	if !found {
		vReached("end")
		return
	}
	// Only compatible definitions are compared (C01 owns the rest). The
	// guard is applied before the case split so that the split enumerates
	// compatible (base type, size) pairs only.
	vAssume(vCanonTab[fd.btype])
	fd.btype = types.Base(vConcretize(int(fd.btype)))
	pt0 := pf.t.BaseType()
	isStr := fd.btype == types.BaseString
	var data [255]byte
	switch {
	case pt0 == types.BaseString || isStr:
		if !(pt0 == types.BaseString && isStr) {
			vReached("end")
			return
		}
		if !allstr {
			vAssume(vStrSizes[fd.size])
		}
		if pf.t.Array() {
			vStringArrayData(&fd, data[:], allstr)
		} else {
			fd.size = byte(vConcretize(int(fd.size)))
			vBytes(data[:fd.size])
		}
	case pf.t.Array():
		if fd.btype != pt0 {
			vReached("end")
			return
		}
		vAssume(int(fd.size)%fd.btype.Size() == 0 && fd.size != 0)
		fd.size = byte(vConcretize(int(fd.size)))
		vBytes(data[:fd.size])
	default:
		vAssume(int(fd.size) == fd.btype.Size())
		fd.size = byte(fd.btype.Size())
		vBytes(data[:fd.size])
	}
	if !vCompat(fd, pf) {
		vReached("end")
		return
	}
	vAssert(d.validateFieldDef(gmn, fd) == nil, "C02.compatible-definition-accepted")
	dsz := fd.btype.Size()
	big := false
	var arch binary.ByteOrder = vNoOrder{}
	if dsz > 1 || pf.t.Kind() != types.NativeFit {
		big = vBool()
		arch = vArch(big)
	}
	vFeed(&d, data[:])
	d.bytes.limit = int(fd.size)
	d.defmsgs[0] = &defmsg{arch: arch, globalMsgNum: gmn, fields: 1, fieldDefs: []fieldDef{fd}}
	msg, err := d.parseDataMessage(0, false)
	vAssert(err == nil && msg.IsValid(), "C02.compatible-record-decodes")
	if err != nil || !msg.IsValid() {
		vReached("end")
		return
	}
	// (Two defects this comparison found on the pinned tree are repaired in
	// /repo: see the "fixed" entries for C02 in known_findings.json.)
	fv := msg.Field(pf.sindex)
	n := int(fd.size)
	switch pf.t.Kind() {
	case types.TimeUTC:
		x := uint32(vWire(data[:], dsz, big))
		got := fv.Interface().(time.Time)
		if x == 0xFFFFFFFF {
			vAssert(IsBaseTime(got), "C02.value.time")
		} else {
			vAssert(got.Equal(decodeDateTime(x)), "C02.value.time")
		}
	case types.TimeLocal:
		x := uint32(vWire(data[:], dsz, big))
		got := fv.Interface().(time.Time)
		if x == 0xFFFFFFFF {
			vAssert(IsBaseTime(got), "C02.value.localtime")
		} else {
			_, off := got.Zone()
			vAssert(got.Unix()+int64(off) == timeBase.Unix()+int64(x), "C02.value.localtime")
		}
	case types.Lat:
		v := int32(vSext(vWire(data[:], dsz, big), dsz))
		vAssert(fv.Interface().(Latitude) == NewLatitude(v), "C02.value.lat")
	case types.Lng:
		v := int32(vSext(vWire(data[:], dsz, big), dsz))
		vAssert(fv.Interface().(Longitude) == NewLongitude(v), "C02.value.lng")
	case types.NativeFit:
		switch {
		case isStr && !pf.t.Array():
			j := 0
			for j < n && data[j] != 0 {
				j++
			}
			vAssert(fv.String() == string(data[:j]), "C02.value.string")
		case isStr && pf.t.Array():
			// reference splitter: NUL-terminated strings, an empty one ends the list
			var want []string
			j := 0
			for j < n {
				k := j
				for k < n && data[k] != 0 {
					k++
				}
				if k == j {
					break
				}
				want = append(want, string(data[j:k]))
				j = k + 1
			}
			ok := fv.Len() == len(want)
			if ok {
				for i := range want {
					if fv.Index(i).String() != want[i] {
						ok = false
					}
				}
			}
			vAssert(ok, "C02.value.string-array")
		case pf.t.Array():
			cnt := n / dsz
			ok := fv.Len() == cnt
			if ok {
				for i := 0; i < cnt; i++ {
					u := vWire(data[i*dsz:], dsz, big)
					ev := fv.Index(i)
					switch ev.Kind() {
					case reflect.Uint8, reflect.Uint16, reflect.Uint32, reflect.Uint64:
						vAssert(ev.Uint() == u, "C02.value.array-element")
					case reflect.Int8, reflect.Int16, reflect.Int32, reflect.Int64:
						vAssert(ev.Int() == vSext(u, dsz), "C02.value.array-element")
					default:
						vAssert(false, "C02.value.array-element")
					}
				}
			}
			vAssert(ok, "C02.value.array-length")
		default:
			u := vWire(data[:], dsz, big)
			switch fv.Kind() {
			case reflect.Uint8, reflect.Uint16, reflect.Uint32, reflect.Uint64:
				vAssert(fv.Uint() == u, "C02.value.scalar")
			case reflect.Int8, reflect.Int16, reflect.Int32, reflect.Int64:
				vAssert(fv.Int() == vSext(u, dsz), "C02.value.scalar")
			default:
				vAssert(false, "C02.value.scalar")
			}
		}
	}
	// every field that was not present holds its type's invalid value
	inv := getMesgAllInvalid(gmn)
	vSameExcept(msg.Interface(), inv.Interface(), "C02.absent-fields-invalid", vFieldName(msg.Interface(), pf.sindex))
	vAssert(d.bytes.n == n, "C02.consumed")
	vReached("compared")
	vReached("end")
}
