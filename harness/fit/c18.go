//go:build verif

package fit

import (
	"reflect"
	"time"
)

// C18 — component fields expand per profile, with per-file accumulation.

// vSameExcept asserts that two messages of the same type agree on every
// field except the named ones.
func vSameExcept(a, b interface{}, id string, except ...string) {
	va, vb := reflect.ValueOf(a), reflect.ValueOf(b)
	for i := 0; i < va.NumField(); i++ {
		name := vFieldName(a, i)
		skip := false
		for _, e := range except {
			if e == name {
				skip = true
			}
		}
		if skip {
			continue
		}
		fa, fb := va.Field(i), vb.Field(i)
		if fa.Kind() == reflect.Slice {
			same := fa.IsNil() == fb.IsNil() && fa.Len() == fb.Len()
			vAssert(same, id)
			if same {
				for j := 0; j < fa.Len(); j++ {
					vAssert(fa.Index(j).Interface() == fb.Index(j).Interface(), id)
				}
			}
			continue
		}
		if ta, isT := fa.Interface().(time.Time); isT {
			// same instant and same zone offset (zone objects are allocated per decode)
			tb := fb.Interface().(time.Time)
			_, oa := ta.Zone()
			_, ob := tb.Zone()
			vAssert(ta.Equal(tb) && oa == ob, id)
			continue
		}
		vAssert(fa.Interface() == fb.Interface(), id)
	}
}

// vExp16 is the reference for a 16-bit source expanded into a 32-bit
// destination: the source's 16 bits, or the destination untouched when the
// source is invalid.
func vExp16(src uint16, dstBefore uint32) uint32 {
	if src == 0xFFFF {
		return dstBefore
	}
	return uint32(src)
}

// H18lap: lap components.
func H18lap() {
	x := NewLapMsg()
	vHavoc(x)
	before := *x
	x.expandComponents()
	vAssert(x.EnhancedAvgSpeed == vExp16(before.AvgSpeed, before.EnhancedAvgSpeed), "C18.lap.avg-speed")
	vAssert(x.EnhancedMaxSpeed == vExp16(before.MaxSpeed, before.EnhancedMaxSpeed), "C18.lap.max-speed")
	vAssert(x.EnhancedAvgAltitude == vExp16(before.AvgAltitude, before.EnhancedAvgAltitude), "C18.lap.avg-altitude")
	vAssert(x.EnhancedMaxAltitude == vExp16(before.MaxAltitude, before.EnhancedMaxAltitude), "C18.lap.max-altitude")
	vAssert(x.EnhancedMinAltitude == vExp16(before.MinAltitude, before.EnhancedMinAltitude), "C18.lap.min-altitude")
	vSameExcept(*x, before, "C18.lap.others-unchanged", "EnhancedAvgSpeed", "EnhancedMaxSpeed", "EnhancedAvgAltitude", "EnhancedMaxAltitude", "EnhancedMinAltitude")
	vReached("end")
}

// H18session: session components.
func H18session() {
	x := NewSessionMsg()
	vHavoc(x)
	before := *x
	x.expandComponents()
	vAssert(x.EnhancedAvgSpeed == vExp16(before.AvgSpeed, before.EnhancedAvgSpeed), "C18.session.avg-speed")
	vAssert(x.EnhancedMaxSpeed == vExp16(before.MaxSpeed, before.EnhancedMaxSpeed), "C18.session.max-speed")
	vAssert(x.EnhancedAvgAltitude == vExp16(before.AvgAltitude, before.EnhancedAvgAltitude), "C18.session.avg-altitude")
	vAssert(x.EnhancedMaxAltitude == vExp16(before.MaxAltitude, before.EnhancedMaxAltitude), "C18.session.max-altitude")
	vAssert(x.EnhancedMinAltitude == vExp16(before.MinAltitude, before.EnhancedMinAltitude), "C18.session.min-altitude")
	vSameExcept(*x, before, "C18.session.others-unchanged", "EnhancedAvgSpeed", "EnhancedMaxSpeed", "EnhancedAvgAltitude", "EnhancedMaxAltitude", "EnhancedMinAltitude")
	vReached("end")
}

// H18seglap: segment_lap components.
func H18seglap() {
	x := NewSegmentLapMsg()
	vHavoc(x)
	before := *x
	x.expandComponents()
	vAssert(x.EnhancedAvgAltitude == vExp16(before.AvgAltitude, before.EnhancedAvgAltitude), "C18.seglap.avg-altitude")
	vAssert(x.EnhancedMaxAltitude == vExp16(before.MaxAltitude, before.EnhancedMaxAltitude), "C18.seglap.max-altitude")
	vAssert(x.EnhancedMinAltitude == vExp16(before.MinAltitude, before.EnhancedMinAltitude), "C18.seglap.min-altitude")
	vSameExcept(*x, before, "C18.seglap.others-unchanged", "EnhancedAvgAltitude", "EnhancedMaxAltitude", "EnhancedMinAltitude")
	vReached("end")
}

// H18event: event components: data16 -> data; sport_point score bytes;
// gear-change gear bytes. An invalid source leaves destinations untouched.
func H18event() {
	x := NewEventMsg()
	vHavoc(x)
	before := *x
	x.expandComponents()
	data := before.Data
	if before.Data16 != 0xFFFF {
		data = uint32(before.Data16)
	}
	vAssert(x.Data == data, "C18.event.data16")
	score, opp := before.Score, before.OpponentScore
	rgn, rg, fgn, fg := before.RearGearNum, before.RearGear, before.FrontGearNum, before.FrontGear
	if data != 0xFFFFFFFF {
		if before.Event == EventSportPoint {
			score, opp = uint16(data), uint16(data>>16)
		}
		if before.Event == EventFrontGearChange || before.Event == EventRearGearChange {
			rgn, rg, fgn, fg = uint8(data), uint8(data>>8), uint8(data>>16), uint8(data>>24)
		}
	}
	vAssert(x.Score == score && x.OpponentScore == opp, "C18.event.score")
	vAssert(x.RearGearNum == rgn && x.RearGear == rg && x.FrontGearNum == fgn && x.FrontGear == fg, "C18.event.gear")
	vSameExcept(*x, before, "C18.event.others-unchanged", "Data", "Score", "OpponentScore", "RearGearNum", "RearGear", "FrontGearNum", "FrontGear")
	vReached("end")
}

// vResetAccumulators puts the accumulators in the state of a fresh process.
func vResetAccumulators() {
	accumuDistance, accumuTotalCycles, accumuAccumulatedPower = nil, nil, nil
}

// H18record: record components from a fresh process: 16-bit altitude and
// speed, the two 12-bit halves of compressed_speed_distance, and the
// accumulated destinations over two consecutive records of one file.
func H18record() {
	vResetAccumulators()
	x := NewRecordMsg()
	vHavoc(x)
	csd := []byte{vByte(), vByte(), vByte()}
	hasCsd := vBool()
	if hasCsd {
		x.CompressedSpeedDistance = csd
	}
	before := *x
	x.expandComponents()
	vAssert(x.EnhancedAltitude == vExp16(before.Altitude, before.EnhancedAltitude), "C18.record.altitude")
	vAssert(x.EnhancedSpeed == vExp16(before.Speed, before.EnhancedSpeed), "C18.record.speed")
	expand := hasCsd && (csd[0]&csd[1]&csd[2]) != 0xFF
	speed, dist := before.Speed, before.Distance
	d12 := uint32(csd[1]>>4) | uint32(csd[2])<<4
	if expand {
		speed = uint16(csd[0]) | uint16(csd[1]&0x0F)<<8
		dist = d12
	}
	vAssert(x.Speed == speed, "C18.record.csd-speed")
	// Known finding: uint32(b[2]<<4) shifts inside a byte and drops the top nibble.
	vKnownNext("KF-C18-csd-distance-top-nibble", expand && csd[2]>>4 != 0)
	vAssert(x.Distance == dist, "C18.record.csd-distance")
	cyc, pow := before.TotalCycles, before.AccumulatedPower
	if before.Cycles != 0xFF {
		cyc = uint32(before.Cycles)
	}
	if before.CompressedAccumulatedPower != 0xFFFF {
		pow = uint32(before.CompressedAccumulatedPower)
	}
	// Known finding: new(uint32Accumulator) has mask 0, so the sums stay 0.
	vKnownNext("KF-C18-accumulator-mask-zero", before.Cycles != 0xFF && before.Cycles != 0)
	vAssert(x.TotalCycles == cyc, "C18.record.total-cycles")
	vKnownNext("KF-C18-accumulator-mask-zero", before.CompressedAccumulatedPower != 0xFFFF && before.CompressedAccumulatedPower != 0)
	vAssert(x.AccumulatedPower == pow, "C18.record.accumulated-power")
	vSameExcept(*x, before, "C18.record.others-unchanged", "EnhancedAltitude", "EnhancedSpeed", "Speed", "Distance", "TotalCycles", "AccumulatedPower")
	vReached("end")
}

// H18acc: one accumulator step from an arbitrary state, and the masks the
// call sites create (12, 8 and 16 bits).
func H18acc() {
	a := &uint32Accumulator{accumuValue: vU32(), lastValue: vU32(), mask: vU32()}
	old := *a
	v := vU32()
	r := a.accumulate(v)
	vAssert(r == old.accumuValue+((v-old.lastValue)&old.mask), "C18.acc.step")
	vAssert(a.accumuValue == r && a.lastValue == v && a.mask == old.mask, "C18.acc.state")
	vAssert(uint32NewAccumulator(12).mask == 0xFFF && uint32NewAccumulator(8).mask == 0xFF && uint32NewAccumulator(16).mask == 0xFFFF, "C18.acc.new-mask")
	// masks created by the record expansion
	vResetAccumulators()
	x := NewRecordMsg()
	x.CompressedSpeedDistance = []byte{1, 2, 3}
	x.Cycles = 1
	x.CompressedAccumulatedPower = 1
	x.expandComponents()
	vAssert(accumuDistance != nil && accumuDistance.mask == 0xFFF, "C18.acc.distance-mask")
	vKnownNext("KF-C18-accumulator-mask-zero", true)
	vAssert(accumuTotalCycles != nil && accumuTotalCycles.mask == 0xFF, "C18.acc.cycles-mask")
	vKnownNext("KF-C18-accumulator-mask-zero", true)
	vAssert(accumuAccumulatedPower != nil && accumuAccumulatedPower.mask == 0xFFFF, "C18.acc.power-mask")
	vReached("end")
}

// H18seq: rollover-corrected running sum over two records of one file, then
// the first record of a second file, which must start from zero again.
func H18seq() {
	vResetAccumulators()
	f1, _ := NewFile(FileTypeActivity, NewHeader(V20, false))
	f2, _ := NewFile(FileTypeActivity, NewHeader(V20, false))
	mk := func(lo byte) (RecordMsg, uint32) {
		r := NewRecordMsg()
		b1 := vByte()
		r.CompressedSpeedDistance = []byte{vByte(), b1, lo}
		vAssume(lo>>4 == 0) // stay outside KF-C18-csd-distance-top-nibble
		return *r, uint32(b1>>4) | uint32(lo)<<4
	}
	r1, d1 := mk(vByte())
	r2, d2 := mk(vByte())
	r3, d3 := mk(vByte())
	f1.add(reflect.ValueOf(r1))
	f1.add(reflect.ValueOf(r2))
	a1, _ := f1.Activity()
	vAssert(len(a1.Records) == 2, "C18.seq.stored")
	vAssert(a1.Records[0].Distance == d1, "C18.seq.first")
	vAssert(a1.Records[1].Distance == d1+((d2-d1)&0xFFF), "C18.seq.rollover-sum")
	f2.add(reflect.ValueOf(r3))
	a2, _ := f2.Activity()
	// Known finding: the accumulators are package-level, so the second file
	// continues the first file's sum.
	vKnownNext("KF-C18-accumulators-process-global", true)
	vAssert(a2.Records[0].Distance == d3, "C18.seq.per-file")
	vReached("end")
}

// H18seg: every container arm that stores a component-bearing message
// expands it: a segment file's segment_lap.
func H18seg() {
	f, _ := NewFile(FileTypeSegment, NewHeader(V20, false))
	x := NewSegmentLapMsg()
	x.AvgAltitude = vU16()
	vAssume(x.AvgAltitude != 0xFFFF)
	f.add(reflect.ValueOf(*x))
	s, _ := f.Segment()
	vAssert(s.SegmentLap != nil, "C18.seg.stored")
	vKnownNext("KF-C18-segmentfile-does-not-expand", true)
	vAssert(s.SegmentLap.EnhancedAvgAltitude == uint32(x.AvgAltitude), "C18.seg.expanded")
	// and the activity file's arm does
	g, _ := NewFile(FileTypeActivity, NewHeader(V20, false))
	g.add(reflect.ValueOf(*x))
	a, _ := g.Activity()
	vAssert(len(a.SegmentLaps) == 1 && a.SegmentLaps[0].EnhancedAvgAltitude == uint32(x.AvgAltitude), "C18.seg.activity-expanded")
	vReached("end")
}
