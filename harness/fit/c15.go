//go:build verif

package fit

import (
	"reflect"
	"time"

	"github.com/tormoder/fit/internal/types"
)

// C15 — profile tables, message structs and all-invalid constructors agree.

// vKindOfBase is the Go kind a FIT base type is stored in.
func vKindOfBase(b types.Base) reflect.Kind {
	switch b {
	case types.BaseEnum, types.BaseUint8, types.BaseUint8z, types.BaseByte:
		return reflect.Uint8
	case types.BaseSint8:
		return reflect.Int8
	case types.BaseSint16:
		return reflect.Int16
	case types.BaseUint16, types.BaseUint16z:
		return reflect.Uint16
	case types.BaseSint32:
		return reflect.Int32
	case types.BaseUint32, types.BaseUint32z:
		return reflect.Uint32
	case types.BaseString:
		return reflect.String
	case types.BaseFloat32:
		return reflect.Float32
	case types.BaseFloat64:
		return reflect.Float64
	case types.BaseSint64:
		return reflect.Int64
	case types.BaseUint64, types.BaseUint64z:
		return reflect.Uint64
	}
	return reflect.Invalid
}

// vInvalidBits is the FIT invalid value of a base type as raw bits.
func vInvalidBits(b types.Base) uint64 {
	switch b {
	case types.BaseEnum, types.BaseUint8, types.BaseByte:
		return 0xFF
	case types.BaseSint8:
		return 0x7F
	case types.BaseSint16:
		return 0x7FFF
	case types.BaseUint16:
		return 0xFFFF
	case types.BaseSint32:
		return 0x7FFFFFFF
	case types.BaseUint32, types.BaseFloat32:
		return 0xFFFFFFFF
	case types.BaseFloat64, types.BaseUint64:
		return 0xFFFFFFFFFFFFFFFF
	case types.BaseSint64:
		return 0x7FFFFFFFFFFFFFFF
	}
	return 0 // the z types
}

// H15a: for one message number (parameter) and an arbitrary field number:
// a found entry designates a struct field of matching Go type, initialised to
// the type's invalid value by the constructor, with an encodable size.
func H15a() {
	gmn := MesgNum(vParam("gmn"))
	fn := vByte()
	vAssert(knownMsgNums[gmn], "C15.msg.known")
	vAssert(int(gmn) < len(_fields) && int(gmn) < len(newMesgFuncs) && int(gmn) < len(msgsTypes), "C15.msg.tables-cover")
	vAssert(newMesgFuncs[gmn] != nil && msgsTypes[gmn] != nil, "C15.msg.constructor-and-type")
	msgv := getMesgAllInvalid(gmn)
	vAssert(msgv.Kind() == reflect.Struct && msgv.Type() == msgsTypes[gmn], "C15.msg.constructor-type")
	vAssert(getGlobalMesgNum(msgv.Type()) == gmn, "C15.msg.type-maps-back")
	f, found := getField(gmn, fn)
	if !found {
		vReached("unlisted")
		vReached("end")
		return
	}
	vAssert(f.num == fn, "C15.entry.num")
	vAssert(f.sindex >= 0 && f.sindex < msgv.NumField(), "C15.entry.sindex-in-range")
	vAssert(f.t.Valid(), "C15.entry.type-valid")
	vAssert(f.length >= 1, "C15.entry.length")
	bt := f.t.BaseType()
	if bt == types.BaseString {
		vAssert(int(f.length) <= 255, "C15.entry.size-fits")
	} else {
		vAssert(bt.Size()*int(f.length) <= 255, "C15.entry.size-fits")
		if !f.t.Array() {
			vAssert(f.length == 1, "C15.entry.scalar-length-1")
		}
	}
	fv := msgv.Field(f.sindex)
	ft := fv.Type()
	switch f.t.Kind() {
	case types.TimeUTC, types.TimeLocal:
		vAssert(ft == reflect.TypeOf(time.Time{}) && !f.t.Array(), "C15.entry.gotype")
		vAssert(bt == types.BaseUint32, "C15.entry.time-base")
		vAssert(fv.Interface().(time.Time).Equal(timeBase), "C15.entry.constructor-invalid")
	case types.Lat:
		vAssert(ft == reflect.TypeOf(Latitude{}) && !f.t.Array(), "C15.entry.gotype")
		vAssert(bt == types.BaseSint32, "C15.entry.coord-base")
		vAssert(fv.Interface().(Latitude).Invalid(), "C15.entry.constructor-invalid")
	case types.Lng:
		vAssert(ft == reflect.TypeOf(Longitude{}) && !f.t.Array(), "C15.entry.gotype")
		vAssert(bt == types.BaseSint32, "C15.entry.coord-base")
		vAssert(fv.Interface().(Longitude).Invalid(), "C15.entry.constructor-invalid")
	case types.NativeFit:
		k := vKindOfBase(bt)
		if f.t.Array() {
			vAssert(ft.Kind() == reflect.Slice && ft.Elem().Kind() == k, "C15.entry.gotype")
			vAssert(fv.IsNil(), "C15.entry.constructor-invalid")
		} else {
			vAssert(ft.Kind() == k, "C15.entry.gotype")
			switch k {
			case reflect.Uint8, reflect.Uint16, reflect.Uint32, reflect.Uint64:
				vAssert(fv.Uint() == vInvalidBits(bt), "C15.entry.constructor-invalid")
			case reflect.Int8, reflect.Int16, reflect.Int32, reflect.Int64:
				vAssert(uint64(fv.Int()) == vInvalidBits(bt), "C15.entry.constructor-invalid")
			case reflect.String:
				vAssert(fv.String() == "", "C15.entry.constructor-invalid")
			case reflect.Float32, reflect.Float64:
				x := fv.Float()
				vAssert(x != x, "C15.entry.constructor-invalid")
			default:
				vAssert(false, "C15.entry.gotype")
			}
		}
		// the invalid value the encoder compares against is the same
		if !f.t.Array() && k != reflect.String && k != reflect.Float32 && k != reflect.Float64 {
			inv := reflect.ValueOf(bt.Invalid())
			switch inv.Kind() {
			case reflect.Uint8, reflect.Uint16, reflect.Uint32, reflect.Uint64:
				vAssert(inv.Uint() == vInvalidBits(bt), "C15.entry.base-invalid")
			case reflect.Int8, reflect.Int16, reflect.Int32, reflect.Int64:
				vAssert(uint64(inv.Int()) == vInvalidBits(bt), "C15.entry.base-invalid")
			}
		}
	default:
		vAssert(false, "C15.entry.kind")
	}
	vReached("listed")
	vReached("end")
}

// H15b: per message (concrete walk over the interpreted table): listed field
// numbers designate pairwise distinct struct fields, every struct field is
// designated by some entry, and the sindex lookup the encoder uses inverts
// the table.
func H15b() {
	gmn := MesgNum(vParam("gmn"))
	msgv := getMesgAllInvalid(gmn)
	n := msgv.NumField()
	hit := make([]int, n)
	tab := profileFieldDef(gmn)
	for fn := 0; fn < 256; fn++ {
		f, found := getField(gmn, byte(fn))
		if !found {
			continue
		}
		vAssert(f.sindex >= 0 && f.sindex < n, "C15.walk.sindex-in-range")
		if f.sindex >= 0 && f.sindex < n {
			hit[f.sindex]++
			vAssert(getFieldBySindex(f.sindex, tab) == f, "C15.walk.sindex-lookup-inverts")
		}
	}
	for i := 0; i < n; i++ {
		vAssert(hit[i] == 1, "C15.walk.bijection")
	}
	vReached("end")
}

// H15c: an arbitrary 16-bit message number: if the library claims to know it,
// every table covers it.
func H15c() {
	mn := MesgNum(vU16())
	if knownMsgNums[mn] {
		vAssert(int(mn) < len(_fields), "C15.known.fields-table")
		vAssert(int(mn) < len(newMesgFuncs) && newMesgFuncs[mn] != nil, "C15.known.constructor")
		vAssert(int(mn) < len(msgsTypes) && msgsTypes[mn] != nil, "C15.known.type")
		vAssert(mn != MesgNumInvalid, "C15.known.not-invalid")
		vReached("known")
	} else if int(mn) < len(_fields) {
		// no stray table rows for unknown numbers
		empty := true
		for fn := 0; fn < 256; fn++ {
			if _fields[mn][fn] != nil {
				empty = false
			}
		}
		vAssert(empty, "C15.unknown.no-rows")
		vReached("unknown")
	}
	vReached("end")
}

// H15d: every message type held by a file container is known.
func H15d() {
	for ti := range vFileTypes {
		f, err := NewFile(FileType(vFileTypes[ti]), NewHeader(V20, true))
		vAssert(err == nil, "C15.container.newfile")
		cont := vContainer(f, ti)
		for i := 0; i < cont.NumField(); i++ {
			ft := cont.Field(i).Type()
			var mt reflect.Type
			if ft.Kind() == reflect.Ptr {
				mt = ft.Elem()
			} else if ft.Kind() == reflect.Slice && ft.Elem().Kind() == reflect.Ptr {
				mt = ft.Elem().Elem()
			} else {
				vAssert(false, "C15.container.member-shape")
				continue
			}
			gmn := getGlobalMesgNum(mt)
			vAssert(gmn != MesgNumInvalid && knownMsgNums[gmn], "C15.container.member-known")
		}
	}
	vReached("end")
}
