//go:build verif

package fit

import "reflect"

// Hmeta exports concrete facts about the tree that the driver needs to build
// its job lists: the known message numbers and the number of file types.
func Hmeta() {
	// message numbers in increasing order
	n := 0
	for g := 0; g < len(_fields)+8; g++ {
		if knownMsgNums[MesgNum(g)] {
			vOut("msg_"+vItoa(n), g)
			n++
		}
	}
	vOut("nmsgs", n)
	vOut("nfields_tab", len(_fields))
	vOut("nmsgtypes", len(msgsTypes))
	vOut("nnewfuncs", len(newMesgFuncs))
	// hosting table: which message number each container member holds
	for ti := range vFileTypes {
		f, err := NewFile(FileType(vFileTypes[ti]), NewHeader(V20, true))
		if err != nil {
			continue
		}
		cont := vContainer(f, ti)
		vOut("nhost_"+vItoa(ti), cont.NumField())
		for i := 0; i < cont.NumField(); i++ {
			ft := cont.Field(i).Type()
			var mt reflect.Type
			if ft.Kind() == reflect.Ptr {
				mt = ft.Elem()
			} else {
				mt = ft.Elem().Elem()
			}
			vOut("host_"+vItoa(ti)+"_"+vItoa(i), int(getGlobalMesgNum(mt)))
			if ft.Kind() == reflect.Slice {
				vOut("hostslice_"+vItoa(ti)+"_"+vItoa(i), 1)
			} else {
				vOut("hostslice_"+vItoa(ti)+"_"+vItoa(i), 0)
			}
		}
	}
	// struct field counts per message
	for g := 0; g < len(_fields); g++ {
		if knownMsgNums[MesgNum(g)] {
			vOut("nf_"+vItoa(g), getMesgAllInvalid(MesgNum(g)).NumField())
		}
	}
	vReached("end")
}

func vItoa(n int) string {
	if n == 0 {
		return "0"
	}
	s := ""
	for n > 0 {
		s = string(rune('0'+n%10)) + s
		n /= 10
	}
	return s
}
