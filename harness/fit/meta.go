//go:build verif

package fit

import "reflect"

// Hmeta exports concrete facts about the tree that the driver needs to build
// its job lists: the known message numbers and the number of file types.
func Hmeta() {
	// message numbers in increasing order
	n := 0
	for g := 0; g < len(_fields)+8; g++ {
		if knownMsgNums[MesgNum(g)] {
			vOut("msg_"+vItoa(n), g)
			n++
		}
	}
	vOut("nmsgs", n)
	vOut("nfields_tab", len(_fields))
	vOut("nmsgtypes", len(msgsTypes))
	vOut("nnewfuncs", len(newMesgFuncs))
	_ = reflect.TypeOf
	vReached("end")
}

func vItoa(n int) string {
	if n == 0 {
		return "0"
	}
	s := ""
	for n > 0 {
		s = string(rune('0'+n%10)) + s
		n /= 10
	}
	return s
}
