//go:build verif

package fit

// C17 — coordinate and time value types.

// H17a: integer clauses for Latitude over all 2^32 semicircle values.
func H17a() {
	s := vI32()
	l := NewLatitude(s)
	inRange := s >= -(1<<30) && s <= (1<<30)-1
	legal := s != 0x7FFFFFFF && inRange
	vAssert(l.Invalid() == !legal, "C17.lat.invalid-iff")
	if legal {
		vAssert(l.Semicircles() == s, "C17.lat.semicircles")
	}
	vReached("end")
}

// H17t: FIT time conversion is a bijection on whole seconds.
func H17t() {
	x := vU32()
	t := decodeDateTime(x)
	vAssert(encodeTime(t) == x, "C17.time.roundtrip")
	vAssert(IsBaseTime(t) == (x == 0), "C17.time.basetime")
	vReached("end")
}
