//go:build verif

package fit

// C17 — coordinate and time value types convert exactly and flag invalids
// consistently.

// H17a: integer clauses for Latitude over all 2^32 semicircle values.
// +-90 degrees are +-2^30 semicircles; the sentinel is 0x7FFFFFFF.
func H17a() {
	s := vI32()
	l := NewLatitude(s)
	legal := s != 0x7FFFFFFF && s >= -(1<<30) && s <= (1<<30)
	// Known finding: the library classes exactly +90.0 degrees (2^30
	// semicircles) as invalid; pinned by the repository's own latlng_test.go.
	vKnown("KF-C17-lat-plus90", s == 1<<30)
	vAssert(l.Invalid() == !legal, "C17.lat.invalid-iff")
	if !l.Invalid() {
		vAssert(l.Semicircles() == s, "C17.lat.semicircles")
	} else {
		vAssert(l.Semicircles() == 0x7FFFFFFF, "C17.lat.invalid-sentinel")
	}
	d := l.Degrees()
	vAssert((d != d) == l.Invalid(), "C17.lat.nan-iff-invalid")
	vReached("end")
}

// H17b: integer clauses for Longitude over all 2^32 values.
func H17b() {
	s := vI32()
	l := NewLongitude(s)
	vAssert(l.Semicircles() == s, "C17.lng.semicircles")
	vAssert(l.Invalid() == (s == 0x7FFFFFFF), "C17.lng.invalid-iff")
	d := l.Degrees()
	vAssert((d != d) == l.Invalid(), "C17.lng.nan-iff-invalid")
	vReached("end")
}

// vClass constrains s to magnitude class k: 2^k <= |s| < 2^(k+1) (k = -1: s = 0).
func vClass(s int32, k int, neg bool) {
	if k < 0 {
		vAssume(s == 0)
		return
	}
	lo := int32(1) << uint(k)
	if k == 30 {
		if neg {
			vAssume(s >= -(1<<30)-(1<<30-1)-1 && s <= -lo)
		} else {
			vAssume(s >= lo)
		}
		return
	}
	hi := int32(1)<<uint(k+1) - 1
	if neg {
		vAssume(s >= -hi && s <= -lo)
	} else {
		vAssume(s >= lo && s <= hi)
	}
}

// H17d: Degrees is exactly semicircles x 180 / 2^31 (= 45 s / 2^29, exact in
// float64). One magnitude class per instance.
func H17d() {
	k, neg, lat := vParam("k"), vParam("neg") == 1, vParam("lat") == 1
	s := vI32()
	vClass(s, k, neg)
	vAssume(s != 0x7FFFFFFF)
	var d float64
	if lat {
		l := NewLatitude(s)
		vAssume(!l.Invalid())
		d = l.Degrees()
	} else {
		d = NewLongitude(s).Degrees()
	}
	ref := (float64(s) * 45) / 536870912
	vAssert(d == ref, "C17.degrees.exact")
	vReached("end")
}

// vEdge constrains s to the w values next to one end of the legal range:
// +-2^30 for a latitude, 2^31-1 / -2^31 for a longitude.
func vEdge(s int32, lat, neg bool, w int32) {
	switch {
	case lat && neg:
		vAssume(s >= -(1<<30) && s < -(1<<30)+w)
	case lat:
		vAssume(s <= 1<<30 && s > 1<<30-w)
	case neg:
		vAssume(s < -(1<<30)-(1<<30)+w)
	default:
		vAssume(s > 0x7FFFFFFF-w)
	}
}

// H17e: constructing from Degrees() gives back the same coordinate within one
// semicircle whenever the degrees lie strictly inside the legal range.
func H17e() {
	k, neg, lat := vParam("k"), vParam("neg") == 1, vParam("lat") == 1
	s := vI32()
	if k == -2 {
		vEdge(s, lat, neg, int32(vParam("w")))
	} else {
		vClass(s, k, neg)
	}
	vAssume(s != 0x7FFFFFFF)
	if lat {
		l := NewLatitude(s)
		vAssume(!l.Invalid())
		d := l.Degrees()
		if d > -90 && d < 90 {
			back := NewLatitudeDegrees(d)
			diff := int64(back.Semicircles()) - int64(s)
			vAssert(!back.Invalid() && diff >= -1 && diff <= 1, "C17.lat.roundtrip")
		}
	} else {
		l := NewLongitude(s)
		d := l.Degrees()
		if d > -180 && d < 180 {
			back := NewLongitudeDegrees(d)
			diff := int64(back.Semicircles()) - int64(s)
			vAssert(!back.Invalid() && diff >= -1 && diff <= 1, "C17.lng.roundtrip")
		}
	}
	vReached("end")
}

// H17t: FIT time conversion is a bijection onto whole seconds from the epoch.
func H17t() {
	x, y := vU32(), vU32()
	t := decodeDateTime(x)
	vAssert(encodeTime(t) == x, "C17.time.roundtrip")
	vAssert(IsBaseTime(t) == (x == 0), "C17.time.basetime")
	u := decodeDateTime(y)
	vAssert(t.Equal(u) == (x == y), "C17.time.injective")
	vAssert(t.Before(u) == (x < y), "C17.time.monotone")
	// whole seconds from the epoch
	vAssert(t.Sub(timeBase).Nanoseconds() == int64(x)*1000000000, "C17.time.whole-seconds")
	vAssert(t.Nanosecond() == 0, "C17.time.nsec-zero")
	vReached("end")
}
