//go:build verif

package fit

import (
	"bytes"

	"github.com/tormoder/fit/dyncrc16"
	"github.com/tormoder/fit/internal/types"
)

// C13 — local message types: the latest definition wins and slots are
// independent.

// The 16 slots get pairwise distinguishable definitions: slot k is message
// vSlotMsgs[k] with one unknown field (number 250) of k+1 bytes, alternating
// byte order.
var vSlotMsgs = [16]MesgNum{MesgNumRecord, MesgNumHrv, MesgNumSession, MesgNumUserProfile, MesgNumDeviceInfo, MesgNumLength,
	MesgNumHr, MesgNumLap, MesgNumWorkout, MesgNumWorkoutStep, MesgNumZonesTarget, MesgNumSegmentLap,
	MesgNumEvent, MesgNumSport, MesgNumActivity, MesgNumSoftware}

// (slots 1 and 3, reachable from compressed-timestamp headers, hold messages
// without a timestamp field: hrv and user_profile)

func vSlotDef(k int) *defmsg {
	return &defmsg{localMsgType: uint8(k), arch: vArch(k%2 == 1), globalMsgNum: vSlotMsgs[k], fields: 1,
		fieldDefs: []fieldDef{{num: 250, size: byte(k + 1), btype: types.BaseByte}}}
}

type vSlotSnap struct {
	p    *defmsg
	val  defmsg
	fd0  fieldDef
	nfds int
}

func vSnap(d *decoder) (s [16]vSlotSnap) {
	for k := range d.defmsgs {
		s[k].p = d.defmsgs[k]
		if s[k].p != nil {
			s[k].val = *s[k].p
			s[k].nfds = len(s[k].p.fieldDefs)
			if s[k].nfds > 0 {
				s[k].fd0 = s[k].p.fieldDefs[0]
			}
		}
	}
	return
}

func vSlotUnchanged(a, b vSlotSnap) bool {
	if a.p != b.p {
		return false
	}
	if a.p == nil {
		return true
	}
	return a.val.localMsgType == b.val.localMsgType && a.val.arch == b.val.arch && a.val.globalMsgNum == b.val.globalMsgNum &&
		a.val.fields == b.val.fields && a.nfds == b.nfds && a.fd0 == b.fd0
}

func vCounts(a *ActivityFile) [16]int {
	n := func(b bool) int {
		if b {
			return 1
		}
		return 0
	}
	return [16]int{len(a.Records), len(a.Hrvs), len(a.Sessions), n(a.UserProfile != nil), len(a.DeviceInfos), len(a.Lengths),
		len(a.Hrs), len(a.Laps), len(a.Workouts), len(a.WorkoutSteps), len(a.ZoneTargets), len(a.SegmentLaps),
		len(a.Events), n(a.Sport != nil), n(a.Activity != nil), 0}
}

// H13: one record from a state in which all 16 slots are defined except
// (optionally) one. The record header byte and the record bytes are
// symbolic. The real decodeFileData loop runs with the data-size limit set
// to the length the reference rule predicts for this one record, so using a
// wrong slot shows as an error, a second iteration or a wrong container.
func H13() {
	var d decoder
	f, _ := NewFile(FileTypeActivity, NewHeader(V20, true))
	d.file = f
	// an arbitrary compressed-timestamp reference (0 = none yet)
	d.timestamp = vU32()
	d.lastTimeOffset = int32(d.timestamp & 31)
	nilSlot := vConcretize(vInt(-1, 15))
	for k := 0; k < 16; k++ {
		if k != nilSlot {
			d.defmsgs[k] = vSlotDef(k)
		}
	}
	b := vByte()
	var rec [40]byte
	rec[0] = b
	vBytes(rec[1:20])
	// a definition body, used when b is a definition header. defkind 0:
	// reserved, arch=big, message 18 (session) big-endian, 1 field (254, 2 bytes, uint16) [+ 1 developer field];
	// defkind 1: the layout the slot already has (same message, same field) but
	// the opposite byte order; defkind 2: exactly the definition the slot has.
	body := []byte{0, 1, 0, 18, 1, 254, 2, 0x84, 1, 7, 3, 0}
	isDef := b&0x80 == 0 && b&0x40 != 0
	defkind := vParam("defkind")
	wantArch, wantMsg, wantFd := vArch(true), MesgNumSession, fieldDef{num: 254, size: 2, btype: types.BaseUint16}
	if isDef && defkind > 0 {
		k := int(b & 0x0F)
		bigNow := k%2 == 1
		bigNew := bigNow
		if defkind == 1 {
			bigNew = !bigNow
		}
		g := uint16(vSlotMsgs[k])
		body = []byte{0, 0, byte(g), byte(g >> 8), 1, 250, byte(k + 1), 0x0D, 1, 7, 3, 0}
		if bigNew {
			body[1], body[2], body[3] = 1, byte(g>>8), byte(g)
		}
		wantArch, wantMsg, wantFd = vArch(bigNew), vSlotMsgs[k], fieldDef{num: 250, size: byte(k + 1), btype: types.BaseByte}
	}
	isCompressed := b&0x80 != 0
	slot := int(b & 0x0F)
	if isCompressed {
		slot = int(b>>5) & 3
	}
	want := 0
	if isDef {
		copy(rec[1:], body)
		want = 1 + 8
		if b&0x20 != 0 {
			want += 4
		}
	} else {
		want = 1 + slot + 1
	}
	vFeed(&d, rec[:])
	d.bytes.limit = want
	before := vSnap(&d)
	act, _ := f.Activity()
	cntBefore := vCounts(act)

	err := d.decodeFileData()

	after := vSnap(&d)
	cntAfter := vCounts(act)
	if isDef {
		vAssert(err == nil, "C13.def.accepted")
		for k := 0; k < 16; k++ {
			if k == slot {
				dm := d.defmsgs[k]
				ok := dm != nil && dm.localMsgType == uint8(k) && dm.arch == wantArch && dm.globalMsgNum == wantMsg &&
					dm.fields == 1 && len(dm.fieldDefs) == 1 && dm.fieldDefs[0] == wantFd
				vAssert(ok, "C13.def.replaces-its-slot")
				if dm != nil {
					if b&0x20 != 0 {
						vAssert(len(dm.devDataFieldDescs) == 1 && dm.devDataFieldDescs[0] == devDataFieldDesc{fieldNum: 7, size: 3, devDataIndex: 0}, "C13.def.dev-fields")
					} else {
						vAssert(len(dm.devDataFieldDescs) == 0, "C13.def.dev-fields")
					}
				}
			} else {
				vAssert(vSlotUnchanged(before[k], after[k]), "C13.def.other-slots-untouched")
			}
		}
		vAssert(cntAfter == cntBefore, "C13.def.no-message")
		vAssert(d.bytes.n == want, "C13.def.consumed")
	} else {
		for k := 0; k < 16; k++ {
			vAssert(vSlotUnchanged(before[k], after[k]), "C13.data.definitions-never-written")
		}
		if slot == nilSlot {
			vAssert(err != nil, "C13.data.undefined-slot-is-error")
			vAssert(cntAfter == cntBefore, "C13.data.undefined-slot-no-message")
		} else {
			vAssert(err == nil, "C13.data.accepted")
			vAssert(d.bytes.n == want, "C13.data.consumed-by-selected-slot")
			for k := 0; k < 16; k++ {
				exp := cntBefore[k]
				if k == slot && k != 15 {
					exp = 1
				}
				vAssert(cntAfter[k] == exp, "C13.data.routed-by-selected-slot")
			}
		}
	}
	vReached("end")
}

// H13b: two definitions carrying developer fields for two different local
// types, then data records of both, through the real decodeFileData loop.
// The second definition must not change how records of the first local type
// are read (sizes of its developer fields included).
func H13b() {
	var d decoder
	f, _ := NewFile(FileTypeActivity, NewHeader(V20, true))
	d.file = f
	A := vConcretize(vInt(0, 15))
	B := A ^ 1
	if vBool() {
		B = A ^ 8
	}
	a1, a2, b1 := vConcretize(vInt(1, 4)), vConcretize(vInt(1, 4)), vConcretize(vInt(1, 4))
	first := vBool() // which of the two definitions comes first
	defA := []byte{0x60 | byte(A), 0, 0, 20, 0, 1, 3, 1, 0x02, 2, 0, byte(a1), 0, 1, byte(a2), 0}
	defB := []byte{0x60 | byte(B), 0, 0, 20, 0, 1, 4, 1, 0x02, 1, 5, byte(b1), 0}
	var s []byte
	if first {
		s = append(append(s, defA...), defB...)
	} else {
		s = append(append(s, defB...), defA...)
	}
	hr1, hr2, cad := vByte(), vByte(), vByte()
	rec := func(local int, v byte, dev int) {
		s = append(s, byte(local), v)
		for i := 0; i < dev; i++ {
			// developer bytes are skipped unread; fixed values keep a
			// mis-framed parse (which would read them as record headers) concrete
			s = append(s, 0xE0|byte(i))
		}
	}
	rec(A, hr1, a1+a2)
	rec(B, cad, b1)
	rec(A, hr2, a1+a2)
	var buf [128]byte
	copy(buf[:], s)
	vFeed(&d, buf[:])
	d.bytes.limit = len(s)
	err := d.decodeFileData()
	vAssert(err == nil, "C13.dev.sequence-decodes")
	vAssert(d.bytes.n == len(s), "C13.dev.consumed")
	act, _ := f.Activity()
	ok := len(act.Records) == 3
	if ok {
		ok = act.Records[0].HeartRate == hr1 && act.Records[1].Cadence == cad && act.Records[2].HeartRate == hr2 &&
			act.Records[1].HeartRate == 0xFF && act.Records[0].Cadence == 0xFF
	}
	vAssert(ok, "C13.dev.records-read-with-their-own-definition")
	da, db := d.defmsgs[A], d.defmsgs[B]
	vAssert(da != nil && len(da.devDataFieldDescs) == 2 && da.devDataFieldDescs[0].size == byte(a1) && da.devDataFieldDescs[1].size == byte(a2), "C13.dev.first-slot-descriptors-kept")
	vAssert(db != nil && len(db.devDataFieldDescs) == 1 && db.devDataFieldDescs[0].size == byte(b1), "C13.dev.second-slot-descriptors")
	vReached("end")
}

// H13c: a redefinition of slot k (parameter) with an arbitrary shape: 0..2
// fields of 1..3 bytes, either byte order, with or without the developer
// flag and 0..2 developer fields of 1..3 bytes; then a data record of slot k
// (arbitrary bytes) and a data record of the next slot. The latest
// definition decides how many bytes the first record has (0 fields: the
// header byte alone), the next slot still reads its own length.
func H13c() {
	var d decoder
	f, _ := NewFile(FileTypeActivity, NewHeader(V20, true))
	d.file = f
	for k := 0; k < 16; k++ {
		d.defmsgs[k] = vSlotDef(k)
	}
	k := vParam("k")
	j := (k + 1) % 16
	big := vBool()
	nf := vConcretize(vInt(0, 2))
	fsz := vConcretize(vInt(1, 3))
	dev := vBool()
	nd, dsz := 0, 0
	if dev {
		nd = vConcretize(vInt(0, 2))
		dsz = vConcretize(vInt(1, 3))
	}
	g := uint16(vSlotMsgs[k])
	hdr := byte(0x40 | k)
	if dev {
		hdr |= 0x20
	}
	s := []byte{hdr, 0, 0, byte(g), byte(g >> 8), byte(nf)}
	if big {
		s[2], s[3], s[4] = 1, byte(g>>8), byte(g)
	}
	for i := 0; i < nf; i++ {
		s = append(s, byte(250+i), byte(fsz), 0x0D)
	}
	if dev {
		s = append(s, byte(nd))
		for i := 0; i < nd; i++ {
			s = append(s, byte(i), byte(dsz), 0)
		}
	}
	s = append(s, byte(k))
	for i := 0; i < nf*fsz; i++ {
		s = append(s, vByte())
	}
	for i := 0; i < nd*dsz; i++ {
		s = append(s, 0xE0|byte(i)) // developer bytes: skipped unread, kept concrete
	}
	s = append(s, byte(j))
	for i := 0; i < j+1; i++ {
		s = append(s, vByte())
	}
	var buf [64]byte
	copy(buf[:], s)
	vFeed(&d, buf[:])
	d.bytes.limit = len(s)
	before := vSnap(&d)
	act, _ := f.Activity()
	err := d.decodeFileData()
	after := vSnap(&d)
	vAssert(err == nil, "C13.redef.sequence-decodes")
	vAssert(d.bytes.n == len(s), "C13.redef.consumed-by-latest-definition")
	cnt := vCounts(act)
	for q := 0; q < 15; q++ {
		exp := 0
		if q == k || q == j {
			exp = 1
		}
		vAssert(cnt[q] == exp, "C13.redef.routed")
	}
	dm := d.defmsgs[k]
	ok := dm != nil && dm.localMsgType == uint8(k) && dm.arch == vArch(big) && dm.globalMsgNum == vSlotMsgs[k] &&
		int(dm.fields) == nf && len(dm.fieldDefs) == nf && len(dm.devDataFieldDescs) == nd
	if ok {
		for i := 0; i < nf; i++ {
			ok = ok && dm.fieldDefs[i] == fieldDef{num: byte(250 + i), size: byte(fsz), btype: types.BaseByte}
		}
		for i := 0; i < nd; i++ {
			ok = ok && dm.devDataFieldDescs[i] == devDataFieldDesc{fieldNum: byte(i), size: byte(dsz), devDataIndex: 0}
		}
	}
	vAssert(ok, "C13.redef.slot-holds-exactly-the-latest-definition")
	for q := 0; q < 16; q++ {
		if q != k {
			vAssert(vSlotUnchanged(before[q], after[q]), "C13.redef.other-slots-untouched")
		}
	}
	vReached("end")
}

// H13d: definitions are per file. A chain of two files: the first defines
// local type k (parameter, 1..15) and uses it; the second (its own header,
// file_id definition and record) carries a data record of local type k
// without defining it — with a normal header, or for k <= 3 also with a
// compressed-timestamp header. DecodeChained must fail in the second file
// exactly as Decode fails on the second file alone.
func H13d() {
	k := vParam("k")
	compressed := vParam("comp") == 1
	mkfile := func(withDef bool) []byte {
		var body bytes.Buffer
		body.Write([]byte{0x40, 0, 0, 0, 0, 2, 0, 1, 0x00, 1, 2, 0x84})
		body.Write([]byte{0x00, 4, 1, 0})
		// a timestamped record through local 15 so that compressed headers have a reference
		body.Write([]byte{0x4F, 0, 0, 20, 0, 1, 253, 4, 0x86})
		body.Write([]byte{0x0F, 0x00, 0x10, 0x20, 0x30})
		if withDef {
			body.Write([]byte{0x40 | byte(k), 0, 0, 20, 0, 1, 3, 1, 0x02})
		}
		hr := vByte()
		if compressed {
			body.Write([]byte{0x80 | byte(k)<<5 | 3, hr})
		} else {
			body.Write([]byte{byte(k), hr})
		}
		hdr := make([]byte, 14)
		vHeader14(hdr, uint32(body.Len()))
		c := dyncrc16.Checksum(hdr[:12])
		hdr[12], hdr[13] = byte(c), byte(c>>8)
		var out bytes.Buffer
		out.Write(hdr)
		out.Write(body.Bytes())
		fc := dyncrc16.Checksum(out.Bytes())
		out.Write([]byte{byte(fc), byte(fc >> 8)})
		return out.Bytes()
	}
	one, two := mkfile(true), mkfile(false)
	f1, e1 := Decode(bytes.NewReader(one))
	vAssert(e1 == nil && f1 != nil, "C13.chain.first-file-decodes")
	_, e2 := Decode(bytes.NewReader(two))
	vAssert(e2 != nil, "C13.chain.undefined-slot-is-error-alone")
	files, err := DecodeChained(bytes.NewReader(append(append([]byte{}, one...), two...)))
	vAssert(err != nil, "C13.chain.definitions-do-not-survive-into-the-next-file")
	vAssert(len(files) >= 1, "C13.chain.first-file-returned")
	vReached("end")
}

// H13e: the first data record of a file. The mandatory first definition is
// written for local type a; the data record that follows names local type b
// (both arbitrary). Only b == a has a definition.
func H13e() {
	a, b := vByte()&0x0F, vByte()&0x0F
	var body bytes.Buffer
	body.Write([]byte{0x40 | a, 0, 0, 0, 0, 2, 0, 1, 0x00, 1, 2, 0x84})
	body.Write([]byte{b, 4, 1, 0})
	hdr := make([]byte, 14)
	vHeader14(hdr, uint32(body.Len()))
	var out bytes.Buffer
	out.Write(hdr)
	out.Write(body.Bytes())
	fc := dyncrc16.Checksum(out.Bytes())
	out.Write([]byte{byte(fc), byte(fc >> 8)})
	_, err := Decode(bytes.NewReader(out.Bytes()))
	_, _, ierr := DecodeHeaderAndFileID(bytes.NewReader(out.Bytes()))
	if a == b {
		vAssert(err == nil && ierr == nil, "C13.first.defined-slot-decodes")
	} else {
		vAssert(err != nil && ierr != nil, "C13.first.undefined-slot-is-error")
	}
	vReached("end")
}

// H13f: two local types defined with opposite byte orders, both carrying a
// timestamp (253) and a uint16 field; records of the two alternate. Every
// record's multi-byte fields are read in the byte order of its own local
// type's definition, whichever definition was parsed last.
func H13f() {
	a, b := vParam("a"), vParam("b")
	lastDefBig := vBool() // which of the two definitions comes last
	defLE := func(l int) []byte { return []byte{0x40 | byte(l), 0, 0, 20, 0, 2, 253, 4, 0x86, 7, 2, 0x84} } // record: timestamp, power
	defBE := func(l int) []byte { return []byte{0x40 | byte(l), 0, 1, 0, 20, 2, 253, 4, 0x86, 7, 2, 0x84} }
	var s []byte
	if lastDefBig {
		s = append(append(s, defLE(a)...), defBE(b)...)
	} else {
		s = append(append(s, defBE(b)...), defLE(a)...)
	}
	var ts [3]uint32
	var pw [3]uint16
	for i := 0; i < 3; i++ {
		ts[i], pw[i] = vU32(), vU16()
		vAssume(ts[i] != 0xFFFFFFFF && pw[i] != 0xFFFF)
		if i == 1 { // the big-endian slot
			s = append(s, byte(b), byte(ts[i]>>24), byte(ts[i]>>16), byte(ts[i]>>8), byte(ts[i]), byte(pw[i]>>8), byte(pw[i]))
		} else {
			s = append(s, byte(a), byte(ts[i]), byte(ts[i]>>8), byte(ts[i]>>16), byte(ts[i]>>24), byte(pw[i]), byte(pw[i]>>8))
		}
	}
	var d decoder
	f, _ := NewFile(FileTypeActivity, NewHeader(V20, true))
	d.file = f
	var buf [64]byte
	copy(buf[:], s)
	vFeed(&d, buf[:])
	d.bytes.limit = len(s)
	err := d.decodeFileData()
	vAssert(err == nil && d.bytes.n == len(s), "C13.order.sequence-decodes")
	act, _ := f.Activity()
	ok := len(act.Records) == 3
	if ok {
		for i := 0; i < 3; i++ {
			ok = ok && act.Records[i].Power == pw[i] && act.Records[i].Timestamp.Equal(decodeDateTime(ts[i]))
		}
	}
	vAssert(ok, "C13.order.each-record-read-in-its-own-definitions-byte-order")
	vReached("end")
}
