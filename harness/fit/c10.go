//go:build verif

package fit

import (
	"io"

	"github.com/tormoder/fit/dyncrc16"
)

// C10 — framing; C11 — truncation and read faults; C16 — options.

func vActivityCounts(f *File) (rec, lap int) {
	if f == nil {
		return 0, 0
	}
	a, err := f.Activity()
	if err != nil || a == nil {
		return 0, 0
	}
	return len(a.Records), len(a.Laps)
}

// H10a: a generated valid stream followed by trailing garbage, read in chunks
// (parameter): a successful Decode / CheckIntegrity consumes exactly header +
// data size + 2 bytes and never asks for a byte beyond the frame; the header
// and file_id entry points agree with Decode.
func H10a() {
	s := vGenStream(vKindsParam(), vParam("crc") == 1)
	frame := len(s.data)
	data := append(append([]byte{}, s.data...), vByte(), vByte(), vByte())
	chunk := vParam("chunk")
	r := &vReader{data: data, chunk: chunk, failAt: -1}
	f, err := Decode(r)
	vAssert(err == nil && f != nil, "C10.decode.accepts-valid-stream")
	vAssert(r.pos == frame, "C10.decode.consumes-exactly-the-frame")
	vAssert(r.maxEnd <= frame, "C10.decode.never-requests-beyond-frame")
	nr, nl := vActivityCounts(f)
	vAssert(nr == s.nRecords && nl == s.nLaps, "C10.decode.message-counts")
	r2 := &vReader{data: data, chunk: chunk, failAt: -1}
	vAssert(CheckIntegrity(r2, false) == nil, "C10.checkintegrity.accepts")
	vAssert(r2.pos == frame && r2.maxEnd <= frame, "C10.checkintegrity.consumes-exactly-the-frame")
	r3 := &vReader{data: data, chunk: chunk, failAt: -1}
	h, herr := DecodeHeader(r3)
	vAssert(herr == nil && f != nil && h == f.Header, "C10.decodeheader.same-header")
	vAssert(r3.pos == s.hdr && r3.maxEnd <= s.hdr, "C10.decodeheader.reads-only-the-header")
	r4 := &vReader{data: data, chunk: chunk, failAt: -1}
	h4, id4, ierr := DecodeHeaderAndFileID(r4)
	vAssert(ierr == nil && f != nil && h4 == f.Header, "C10.headerandfileid.same-header")
	if f != nil {
		vSameExcept(id4, f.FileId, "C10.headerandfileid.same-fileid")
	}
	vAssert(r4.maxEnd <= frame, "C10.headerandfileid.within-frame")
	vReached("end")
}

// H10b: DecodeChained over two generated streams returns one File per input,
// each with the content of decoding that stream alone.
func H10b() {
	ks := vKindsParam()
	s1 := vGenStream(ks, true)
	s2 := vGenStream([]int{vKindLap, vKindRecord}, false)
	data := append(append([]byte{}, s1.data...), s2.data...)
	chunk := vParam("chunk")
	r := &vReader{data: data, chunk: chunk, failAt: -1}
	files, err := DecodeChained(r)
	vAssert(err == nil, "C10.chained.accepts")
	vAssert(len(files) == 2, "C10.chained.one-file-per-input")
	vAssert(r.pos == len(data), "C10.chained.consumes-both")
	if len(files) == 2 {
		a1, e1 := Decode(&vReader{data: s1.data, failAt: -1})
		a2, e2 := Decode(&vReader{data: s2.data, failAt: -1})
		vAssert(e1 == nil && e2 == nil, "C10.chained.parts-decode")
		if e1 == nil && e2 == nil {
			vSameContent(files[0], a1, 3, "C10.chained.equals-decoding-alone")
			vSameContent(files[1], a2, 3, "C10.chained.equals-decoding-alone")
			vAssert(files[0].Header == a1.Header && files[1].Header == a2.Header && files[0].CRC == a1.CRC && files[1].CRC == a2.CRC, "C10.chained.equals-decoding-alone")
		}
	}
	vReached("end")
}

// H11a: the generated stream cut (clean EOF) or faulted (non-EOF error) at an
// arbitrary offset k inside the frame: every entry point returns an error,
// and the File returned alongside holds exactly the records that were
// complete before k.
func H11a() {
	s := vGenStream(vKindsParam(), vParam("crc") == 1)
	fault := vParam("fault") == 1
	chunk := vParam("chunk")
	k := vConcretize(vInt(0, len(s.data)-1))
	we := vParam("we") == 1 // the error arrives together with the last bytes
	mk := func() *vReader {
		if fault {
			return &vReader{data: s.data, chunk: chunk, failAt: k, withErr: we}
		}
		return &vReader{data: s.data[:k], chunk: chunk, failAt: -1, withErr: we}
	}
	f, err := Decode(mk())
	vAssert(err != nil, "C11.decode.error-on-cut")
	// completed records
	wantRec, wantLap := 0, 0
	for i, e := range s.ends {
		if e <= k {
			switch s.kinds[i] {
			case vKindRecord, vKindUnknownFld, vKindDevField, vKindDevField2, vKindCompressed:
				wantRec++
			case vKindLap:
				wantLap++
			}
		}
	}
	if k >= s.fileIDEnd {
		nr, nl := vActivityCounts(f)
		vAssert(f != nil && nr == wantRec && nl == wantLap, "C11.decode.partial-content-is-the-completed-prefix")
	}
	vAssert(CheckIntegrity(mk(), false) != nil, "C11.checkintegrity.error-on-cut")
	if k < s.hdr {
		vAssert(CheckIntegrity(mk(), true) != nil, "C11.checkintegrity-header.error-on-cut")
		_, herr := DecodeHeader(mk())
		vAssert(herr != nil, "C11.decodeheader.error-on-cut")
	}
	if k < s.fileIDEnd {
		_, _, ierr := DecodeHeaderAndFileID(mk())
		vAssert(ierr != nil, "C11.headerandfileid.error-on-cut")
	}
	files, cerr := DecodeChained(mk())
	vAssert(cerr != nil, "C11.chained.error-on-cut-in-first-file")
	vAssert(len(files) <= 1, "C11.chained.at-most-the-partial-file")
	vReached("end")
}

// H11b: chain boundary. file1 followed by a prefix of file2 (cut at k, k = 0
// .. len(file2)) or by a fault at that point, or by one arbitrary stray
// byte. Only a clean end of input exactly on the boundary ends the chain
// without error.
func H11b() {
	s1 := vGenStream([]int{vKindRecord}, true)
	s2 := vGenStream([]int{vKindLap}, false)
	mode := vParam("mode") // 0 cut, 1 fault, 2 stray byte
	chunk := vParam("chunk")
	all := append(append([]byte{}, s1.data...), s2.data...)
	var r *vReader
	k := 0
	switch mode {
	case 0:
		k = vConcretize(vInt(0, len(s2.data)))
		r = &vReader{data: all[:len(s1.data)+k], chunk: chunk, failAt: -1}
	case 1:
		k = vConcretize(vInt(0, len(s2.data)-1))
		r = &vReader{data: all, chunk: chunk, failAt: len(s1.data) + k}
		// the fault is a non-EOF error of the reader's choosing: the
		// harness's own, io.ErrUnexpectedEOF (truncated gzip/http bodies
		// report it), or io.ErrClosedPipe
		switch vConcretize(vInt(0, 2)) {
		case 1:
			r.faultErr = io.ErrUnexpectedEOF
		case 2:
			r.faultErr = io.ErrClosedPipe
		}
	default:
		b := vByte()
		r = &vReader{data: append(append([]byte{}, s1.data...), b), chunk: chunk, failAt: -1}
	}
	files, err := DecodeChained(r)
	switch {
	case mode == 0 && k == 0:
		vAssert(err == nil && len(files) == 1, "C11.chain.clean-end-on-boundary")
	case mode == 0 && k == len(s2.data):
		vAssert(err == nil && len(files) == 2, "C11.chain.clean-end-after-second-file")
	case mode == 0:
		vAssert(err != nil, "C11.chain.cut-inside-second-file-is-error")
	case mode == 1:
		vAssert(err != nil, "C11.chain.fault-is-error")
	default:
		vAssert(err != nil, "C11.chain.stray-byte-is-error")
	}
	vAssert(len(files) >= 1, "C11.chain.first-file-returned")
	vReached("end")
}

// H10big: a file whose data area is larger than the decoder's 4096-byte
// buffer (concrete records, arbitrary heart-rate bytes in a few of them),
// read in chunks given by parameter (0 = as much as asked, which exceeds the
// buffer): exact consumption, no request beyond the frame, all records
// decoded in order.
func H10big() {
	nrec := 720
	var body []byte
	body = append(body, 0x40, 0, 0, 0, 0, 2, 0, 1, 0x00, 1, 2, 0x84)
	body = append(body, 0x00, 4, 1, 0)
	body = append(body, 0x41, 0, 0, 20, 0, 2, 253, 4, 0x86, 3, 1, 0x02)
	hr := make([]byte, nrec)
	for i := 0; i < nrec; i++ {
		hr[i] = byte(i % 200)
		if i%240 == 7 {
			hr[i] = vByte()
		}
		body = append(body, 0x01, byte(i), byte(i>>8), 0, 0x20, hr[i])
	}
	hdr := make([]byte, 14)
	vHeader14(hdr, uint32(len(body)))
	c := dyncrc16.Checksum(hdr[:12])
	hdr[12], hdr[13] = byte(c), byte(c>>8)
	data := append(hdr, body...)
	fc := dyncrc16.Checksum(data)
	data = append(data, byte(fc), byte(fc>>8))
	frame := len(data)
	data = append(data, 0xAA, 0xBB)
	r := &vReader{data: data, chunk: vParam("chunk"), failAt: -1}
	f, err := Decode(r)
	vAssert(err == nil && f != nil, "C10.big.decodes")
	vAssert(r.pos == frame && r.maxEnd <= frame, "C10.big.consumes-exactly-the-frame")
	if f != nil {
		a, _ := f.Activity()
		ok := a != nil && len(a.Records) == nrec
		if ok {
			for i := 0; i < nrec; i += 37 {
				if a.Records[i].HeartRate != hr[i] {
					ok = false
				}
			}
			if a.Records[nrec-1].HeartRate != hr[nrec-1] || a.Records[247].HeartRate != hr[247] {
				ok = false
			}
		}
		vAssert(ok, "C10.big.records-in-order")
	}
	r2 := &vReader{data: data, chunk: vParam("chunk"), failAt: -1}
	vAssert(CheckIntegrity(r2, false) == nil && r2.pos == frame && r2.maxEnd <= frame, "C10.big.checkintegrity")
	vReached("end")
}
