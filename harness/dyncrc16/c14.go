//go:build verif

package dyncrc16

import "io"

// C14 — the checksum is CRC-16/ARC and does not depend on how data is fed.

// vRefStep is the textbook bit-serial reflected CRC-16 step, polynomial
// 0xA001, written without data-dependent branches.
func vRefStep(c uint16, b byte) uint16 {
	c ^= uint16(b)
	for i := 0; i < 8; i++ {
		c = (c >> 1) ^ (0xA001 & -(c & 1))
	}
	return c
}

// H14a: updateByte equals the reference step for all 2^16 x 2^8 pairs.
func H14a() {
	c, b := vU16(), vByte()
	got := uint16(updateByte(crc16(c), b))
	vAssert(got == vRefStep(c, b), "C14.step")
	vReached("end")
}

// vRef is the bit-serial reference over a byte string.
func vRef(c uint16, data []byte) uint16 {
	for _, b := range data {
		c = vRefStep(c, b)
	}
	return c
}

// vFold is the left fold of the package's own per-byte step, which H14a
// shows equal to the reference step for every (state, byte). Comparing the
// streaming interface against this fold keeps the two sides syntactically
// aligned; comparing against vRef directly is done for short data (H14d).
func vFold(c uint16, data []byte) uint16 {
	for _, b := range data {
		c = uint16(updateByte(crc16(c), b))
	}
	return c
}

// H14b: streaming. For data of length L (parameter) from an arbitrary state:
// any split into two writes gives the same register as one write, equal to
// the reference; Write returns (len, nil); Checksum equals the reference from
// state zero; New and Reset give state zero.
func H14b() {
	L := vParam("L")
	data := make([]byte, L)
	vBytes(data)
	k := vInt(0, L)
	s := vU16()

	one := crc16(s)
	n, err := one.Write(data)
	vAssert(n == L && err == nil, "C14.write.returns")
	vAssert(one.Sum16() == vFold(s, data), "C14.write.fold")

	two := crc16(s)
	two.Write(data[:k])
	two.Write(data[k:])
	vAssert(two.Sum16() == one.Sum16(), "C14.split")

	vAssert(Checksum(data) == vFold(0, data), "C14.checksum")

	h := New()
	vAssert(h.Sum16() == 0, "C14.new.zero")
	h.Write(data)
	vAssert(h.Sum16() == vFold(0, data), "C14.hash.fold")
	h.Reset()
	vAssert(h.Sum16() == 0, "C14.reset")
	// feeding the same bytes as a string (io.WriteString uses a WriteString
	// method when the hasher has one) is one more way to split the data
	if L <= 3 {
		ws := New()
		io.WriteString(ws, string(data[:k]))
		ws.Write(data[k:])
		vAssert(ws.Sum16() == vFold(0, data), "C14.writestring")
	}
	vReached("end")
}

// H14c: residue rule from an arbitrary state: appending the register
// little-endian zeroes it. (By induction on the data this is the rule for
// data of any length.)
func H14c() {
	s := vU16()
	c := crc16(s)
	c.Write([]byte{byte(s), byte(s >> 8)})
	vAssert(c.Sum16() == 0, "C14.residue")
	// and it is the only two-byte suffix that does: the step is injective in
	// the state and the state after one byte determines the second byte.
	b0, b1 := vByte(), vByte()
	d := crc16(s)
	d.Write([]byte{b0, b1})
	if d.Sum16() == 0 {
		vAssert(b0 == byte(s) && b1 == byte(s>>8), "C14.residue.unique")
	}
	vReached("end")
}

// H14d: direct comparison of Checksum and the streaming interface with the
// bit-serial reference for short data (length L).
func H14d() {
	L := vParam("L")
	data := make([]byte, L)
	vBytes(data)
	vAssert(Checksum(data) == vRef(0, data), "C14.checksum.ref")
	s := vU16()
	c := crc16(s)
	c.Write(data)
	vAssert(c.Sum16() == vRef(s, data), "C14.write.ref")
	vReached("end")
}
