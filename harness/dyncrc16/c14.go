//go:build verif

package dyncrc16

// C14 — the checksum is CRC-16/ARC and does not depend on how data is fed.

// vRefStep is the textbook bit-serial reflected CRC-16 step, polynomial
// 0xA001, written without data-dependent branches.
func vRefStep(c uint16, b byte) uint16 {
	c ^= uint16(b)
	for i := 0; i < 8; i++ {
		c = (c >> 1) ^ (0xA001 & -(c & 1))
	}
	return c
}

// H14a: updateByte equals the reference step for all 2^16 x 2^8 pairs.
func H14a() {
	c, b := vU16(), vByte()
	got := uint16(updateByte(crc16(c), b))
	vAssert(got == vRefStep(c, b), "C14.step")
	vReached("end")
}
