//go:build verif

package dyncrc16

// C04 lemmas on the real per-byte step. Together (composition stated in
// DESIGN.md) they give: any non-zero error pattern spanning at most 16 bits
// changes the final register of a frame of any length.

func vUpd(c uint16, b byte) uint16 { return uint16(updateByte(crc16(c), b)) }

// H04lin: the step is GF(2)-linear in (state, byte).
func H04lin() {
	c1, c2, b1, b2 := vU16(), vU16(), vByte(), vByte()
	vAssert(vUpd(c1^c2, b1^b2) == vUpd(c1, b1)^vUpd(c2, b2), "C04.lemma.linear")
	vReached("end")
}

// H04ker: a zero byte keeps a non-zero register non-zero; the step is
// injective in the state for every byte.
func H04ker() {
	c, d, b := vU16(), vU16(), vByte()
	if vUpd(c, 0) == 0 {
		vAssert(c == 0, "C04.lemma.kernel")
	}
	if vUpd(c, b) == vUpd(d, b) {
		vAssert(c == d, "C04.lemma.injective")
	}
	vReached("end")
}

// H04burst: a non-zero pattern of at most 16 contiguous bits, at any of the 8
// bit offsets, fed as three bytes from register 0, leaves a non-zero register.
func H04burst() {
	p := vU16()
	o := vByte() & 7
	vAssume(p != 0)
	e := uint32(p) << o // 24 bits
	r := vUpd(vUpd(vUpd(0, byte(e)), byte(e>>8)), byte(e>>16))
	vAssert(r != 0, "C04.lemma.burst")
	vReached("end")
}
