#!/bin/sh
# ./eval_seed.sh <seed-id> : applies seeded/<id>/patch.diff to /repo, runs the
# quick check of the property it breaks (and optionally others), restores /repo.
cd "$(dirname "$0")" || exit 2
id=$1
dir=seeded/$id
prop=$(python3 -c "import json;print(json.load(open('$dir/meta.json'))['property'])")
git -C /repo diff --quiet || { echo "/repo has uncommitted changes"; exit 2; }
git -C /repo apply "$PWD/$dir/patch.diff" || exit 2
trap 'git -C /repo checkout -- . ' EXIT
s=$(date +%s)
case $prop in C01|C02|C08|C11|C16) tier=thorough;; *) tier=quick;; esac   # rotating quick tiers: evaluate on the whole instance list
GOSYM_SEEDEVAL=1 ./check $prop $tier > work/seed_$id.log 2>&1   # GOSYM_SEEDEVAL: evidence of a seeded tree goes to work/, not evidence/
rc=$?
e=$(date +%s)
echo "seed $id property $prop: rc=$rc ($((e-s))s) $(grep -c '^VIOLATION' work/seed_$id.log) violation lines"
grep -m3 "assertion .* failed" work/seed_$id.log
exit 0
