#!/bin/sh
# ./run_thorough.sh <box-seconds> C..: runs the thorough tier of each listed property once, time-boxed,
# evidence diverted to work/ (GOSYM_SEEDEVAL), prints one line per property.
cd "$(dirname "$0")" || exit 2
box=$1; shift
mkdir -p work
for c in "$@"; do
  s=$(date +%s)
  GOSYM_SEEDEVAL=1 timeout $box ./check $c thorough > work/thorough_$c.log 2>&1
  rc=$?
  e=$(date +%s)
  echo "$c rc=$rc $((e-s))s $(grep -c KNOWN-FINDING work/thorough_$c.log) known $(grep -c VIOLATION work/thorough_$c.log) violations $(grep -c INCONCLUSIVE work/thorough_$c.log) inconclusive"
done
