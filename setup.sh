#!/bin/sh
# builds the symbolic engine offline from the module cache
cd "$(dirname "$0")/engine" || exit 2
export GOFLAGS=-mod=mod GOPROXY=off GOSUMDB=off GOTOOLCHAIN=local
mkdir -p ../bin
go build -o ../bin/gosym . || exit 2
echo "built $(cd .. && pwd)/bin/gosym"
